"""Indexing engine (C12): index expressions from a grammar, read and written
inside and outside open_array() contexts, against NumPy on the model; every
returned value goes on a hold list that is re-verified after every later
operation (append, assignment, truncate, delete); descriptor/map leaks are
checked after every operation, successful or failed.  Every run is a forked
child, so a view of a closed map shows as death by signal."""
import copy
import os
import numpy as np

from ..core import HarnessError
from .. import data as D
from ..oracles import leaks, decode_array_dir, DecodeError
from . import arrayhist as AH
from .arrayhist import Viol, Diverged


def gen_index(rng, depth=0):
    r = rng.random()
    if r < 0.17:
        return {'k': 'int', 'i': rng.choice([0, 1, 2, 3, -1, -2, 5, 9, -7, 40, -40])}
    if r < 0.22:     # NumPy integer scalars are basic indices too
        return {'k': 'npint', 'i': rng.choice([0, 1, 2, -1, 3, 7]), 't': rng.choice(['int64', 'int32', 'uint8', 'int16'])}
    if r < 0.50:
        return {'k': 'slice', 'a': rng.choice([None, None, 0, 1, 2, -2, 5, -9, 30]),
                'b': rng.choice([None, None, 0, 1, 3, -1, 9, 50, -50]), 's': rng.choice([None, None, 1, 2, 3, -1, -2])}
    if r < 0.56:
        return {'k': 'ellipsis'}
    if r < 0.61:
        return {'k': 'none'}
    if r < 0.80 and depth == 0:
        return {'k': 'tuple', 'items': [gen_index(rng, 1) for _ in range(rng.choice([1, 2, 2, 3, 4, 5]))]}
    if r < 0.88:
        return {'k': 'intarray', 'v': [rng.choice([0, 1, 2, -1, 3, 0, 7, -3]) for _ in range(rng.choice([0, 1, 2, 4]))],
                'two_d': rng.random() < 0.2}
    if r < 0.95:
        return {'k': 'mask', 'seed': rng.getrandbits(16), 'full': rng.random() < 0.3, 'wrong_len': rng.random() < 0.1}
    return {'k': 'junk', 'what': rng.choice(['str', 'float', 'liststr', 'dict', 'npfloat'])}


def build_index(ix, shape):
    k = ix['k']
    if k == 'int':
        return ix['i']
    if k == 'npint':
        return np.dtype(ix['t']).type(abs(ix['i']) if ix['t'].startswith('u') else ix['i'])
    if k == 'slice':
        return slice(ix['a'], ix['b'], ix['s'])
    if k == 'ellipsis':
        return Ellipsis
    if k == 'none':
        return None
    if k == 'tuple':
        return tuple(build_index(x, shape) for x in ix['items'])
    if k == 'intarray':
        a = np.array(ix['v'], dtype=np.int64)
        return a.reshape(1, -1) if ix.get('two_d') else a
    if k == 'mask':
        g = np.random.Generator(np.random.PCG64(ix['seed']))
        shp = tuple(shape) if ix.get('full') else (shape[0],)
        if ix.get('wrong_len'):
            shp = (shp[0] + 1,) + tuple(shp[1:])
        return g.random(shp) < 0.5
    if k == 'junk':
        return {'str': 'a', 'float': 1.0, 'liststr': ['a', 'b'], 'dict': {}, 'npfloat': np.float64(0)}[ix['what']]
    raise HarnessError(k)


def same_class(e1, e2):
    return isinstance(e1, type(e2)) or isinstance(e2, type(e1))


class Indexing(AH.ArrayHistory):
    prop = 'C12'
    oracles = ('leak', 'hold')
    weights = dict(get=40, set=22, append=5, truncate=5, reopen=3, mode=0, iterappend=0, setitem=0,
                   append_bad=0, truncate_bad=0, meta=0, recreate=0, ctx=8, delete_end=0, iterbreak=4)
    batch = 30
    big_p = 0.06

    def gen_create(self, rng):
        dtype = D.pick_dtype(rng)
        ndim = rng.choice([1, 1, 2, 2, 3, 4])
        trail = [rng.choice([1, 2, 3]) for _ in range(ndim - 1)]
        rows = rng.choice([0, 1, 2, 3, 5, 8, 13])
        if rng.random() < self.big_p:
            rowbytes = np.dtype(dtype).itemsize * int(np.prod(trail or [1]))
            rows = rng.choice([1, 2, 3]) * 2 ** 20 // rowbytes
        return {'op': 'create', 'how': 'asarray',
                'data': {'gen': 'rand', 'rows': rows, 'trail': trail, 'dtype': dtype,
                         'layout': 'C', 'form': 'ndarray', 'vseed': rng.getrandbits(32)},
                'mode': 'r+', 'chunklen': None}

    def gen_op(self, rng):
        w = self.weights
        kinds = [k for k in w if w[k] > 0]
        k = rng.choices(kinds, [w[x] for x in kinds])[0]
        if k == 'get':
            return {'op': 'get', 'index': gen_index(rng)}
        if k == 'set':
            return {'op': 'set', 'index': gen_index(rng),
                    'value': {'k': rng.choice(['scalar', 'scalar', 'match', 'match', 'lastaxis', 'wrongshape', 'float_into_int']),
                              'vseed': rng.getrandbits(32), 'dtype': rng.choice(['same', 'same', D.pick_dtype(rng)])}}
        if k == 'ctx':
            return {'op': 'ctx', 'do': rng.choice(['enter', 'enter', 'exit', 'exit', 'enter_rplus_on_r', 'badmode'])}
        saved, self.weights = self.weights, {x: (1 if x == k else 0) for x in w}
        try:
            return super().gen_op(rng)
        finally:
            self.weights = saved

    def gen(self, rng, i, tier):
        ops = [self.gen_create(rng)]
        for _ in range(rng.randint(3, 40 if tier == 'thorough' and rng.random() < 0.3 else 16)):
            ops.append(self.gen_op(rng))
        if rng.random() < 0.35:
            ops.append({'op': 'ctx', 'do': 'exit'})
            ops.append({'op': 'delete_end'})
        return {'engine': type(self).__name__, 'prop': self.prop, 'ops': ops}

    def simplify(self, sc):
        yield from super().simplify(sc)
        for i, op in enumerate(sc['ops']):
            if op['op'] in ('get', 'set') and op['index']['k'] == 'tuple':
                its = op['index']['items']
                for j in range(len(its)):
                    c = copy.deepcopy(sc)
                    c['ops'][i]['index'] = dict(op['index'], items=its[:j] + its[j + 1:]) if len(its) > 1 else its[0]
                    yield c
            if op['op'] == 'set' and (op['value']['k'] != 'scalar' or op['value']['dtype'] != 'same'):
                c = copy.deepcopy(sc)
                c['ops'][i]['value'] = dict(op['value'], k='scalar', dtype='same')
                yield c

    def judge_death(self, scenario, events, sig, code):
        import signal as _sg
        if sig not in (_sg.SIGSEGV, _sg.SIGBUS, _sg.SIGABRT, _sg.SIGILL, _sg.SIGFPE):
            return None       # killed from outside (OOM killer, operator), or a plain exit: the run proves nothing
        begun = [e for e in events if e.get('begin')]
        last = begun[-1] if begun else {}
        what = f'signal:{sig}' if sig is not None else f'exit:{code}'
        return {'oracle': 'index.crash', 'signature': what, 'op_index': last.get('step'), 'op': last.get('op'),
                'detail': f'interpreter died during {last}'}

    def rule(self):
        return ('seeded op lists: get/set with index expressions from a grammar (ints, slices with steps, Ellipsis, None, '
                'tuples up to 5 items, integer arrays, boolean masks incl. wrong length, non-index objects) on rank 1-4 '
                'arrays incl. 0-row and multi-MB ones, inside/outside open_array() contexts, mixed with append/truncate/'
                'restart and a final delete; non-trivial = at least one successful indexed read was held and re-verified '
                'after a later mutation; distinct = distinct scenario digests')

    def nontrivial(self, scenario, stats):
        return (stats.get('probes') or {}).get('held_reverified_after_mutation', 0) >= 1


class _IState(AH._State):

    def __init__(self, *a):
        super().__init__(*a)
        self.hold = []
        self.ctx = []

    def step(self, op):
        self.emit({'step': self.idx, 'op': op['op'], 'begin': 1})
        k = op['op']
        if k in ('get', 'set', 'ctx', 'delete_end'):
            if self.h is None:
                return
            if k != 'ctx' and k != 'get' and self.mode != 'r+':
                self.close_ctx()      # a context entered in mode 'r' caches a read-only map
                self.h.accessmode = 'r+'
                self.mode = 'r+'
            getattr(self, 'do_' + k)(op)
            self.check_hold(k)
            self.check_leak(k)
            return
        if k in ('append', 'truncate', 'reopen', 'iterappend', 'iterbreak') and self.ctx:
            # structural ops are performed outside contexts
            self.close_ctx()
        super().step(op)
        self.check_hold(k)
        self.check_leak(k)

    def close_ctx(self):
        while self.ctx:
            self.ctx.pop().__exit__(None, None, None)
        if getattr(self, 'rplus_ctx_on_r', False):
            self.rplus_ctx_on_r = False
            self.h.accessmode = 'r+'

    def close(self):
        try:
            self.close_ctx()
        except Exception:
            pass
        self.h = None

    def do_ctx(self, op):
        if op['do'] == 'badmode':
            # an invalid access mode is refused; the refusal must not leave anything open
            self.close_ctx()
            try:
                with self.h.open_array(accessmode='w'):
                    pass
                self.probe('ctx_invalid_mode_accepted')     # that it be refused is not stated; only "nothing stays open"
            except Exception:
                self.probe('ctx_invalid_mode_refused')
            self.log('ctx', 'badmode')
            return
        if op['do'] == 'enter_rplus_on_r':
            # the documented way of writing through a read-only object: with a.open_array(accessmode='r+'): a[i] = v
            self.close_ctx()
            self.h.accessmode = 'r'
            self.mode = 'r+'          # writes are owed while the r+ context is open (it is closed before the mode matters again)
            cm = self.h.open_array(accessmode='r+')
            cm.__enter__()
            self.ctx.append(cm)
            self.rplus_ctx_on_r = True
            self.probe('rplus_context_on_readonly_object')
            self.log('ctx', 'enter_rplus_on_r')
            return
        if op['do'] == 'enter':
            if len(self.ctx) < 2:
                cm = self.h.open_array()
                cm.__enter__()
                self.ctx.append(cm)
                self.probe('ctx_entered')
        elif self.ctx:
            self.ctx.pop().__exit__(None, None, None)
            if not self.ctx and getattr(self, 'rplus_ctx_on_r', False):
                self.rplus_ctx_on_r = False
                self.h.accessmode = 'r+'
        self.log('ctx', op['do'])

    def do_get(self, op):
        m = self.model
        idx = build_index(op['index'], m.shape)
        mexc, exp = None, None
        try:
            exp = np.array(m[idx], copy=True)
        except Exception as e:   # noqa
            mexc = e.with_traceback(None)
        exc, got = None, None
        try:
            got = self.h[idx]
        except Exception as e:   # noqa
            exc = e.with_traceback(None)
        where = 'in_ctx' if self.ctx else 'plain'
        kind = op['index']['k']
        if mexc is not None:
            if exc is None:
                raise Viol('index.get', f'no_exception:{kind}', f'reference raises {type(mexc).__name__}: {mexc}')
            if not same_class(exc, mexc):
                raise Viol('index.get', f'wrong_class:{type(exc).__name__}_vs_{type(mexc).__name__}', str(exc)[:200])
            self.probe('get_rejected:' + type(mexc).__name__)
            self.log('get', 'rejected', {'w': where})
            return
        if exc is not None:
            raise Viol('index.get', f'raises:{type(exc).__name__}:{kind}', f'{idx!r}: {str(exc)[:200]}')
        if isinstance(got, np.generic) and np.ndim(exp) == 0:
            # a full index: the reference ndarray itself returns a NumPy scalar there ("returns what the reference
            # ndarray returns"), the pinned tree a 0-d ndarray ("as an in-memory ndarray"): both are accepted
            self.probe('full_index_returned_numpy_scalar')
            got = np.asarray(got)
            exp = np.asarray(exp).astype(np.asarray(exp).dtype.newbyteorder('='))   # NumPy scalars are native-endian
        if not isinstance(got, np.ndarray):
            raise Viol('index.get', f'type:{type(got).__name__}', '')
        ok, why = D.arr_equal(got, exp)
        if not ok:
            raise Viol('index.get', f'{why.split(" ")[0]}:{kind}', f'{idx!r}: {why}')
        # structural hint: no memory map anywhere in the base chain
        import mmap as _mmap
        b = got
        depth = 0
        while b is not None and depth < 10:
            # an actual mmap buffer in the base chain (a detached copy of class memmap has none)
            if isinstance(b, _mmap.mmap) or isinstance(getattr(b, '_mmap', None), _mmap.mmap):
                raise Viol('index.detached', 'result_is_backed_by_a_memory_map', f'{idx!r}')
            b = getattr(b, 'base', None)
            depth += 1
        self.hold.append((got, np.ascontiguousarray(exp).tobytes(), exp.shape))
        if len(self.hold) > 40:
            self.hold.pop(0)
        self.probe('get_ok:' + where)
        if m.shape[0] == 0:
            self.probe('get_on_empty_array')
        self.log('get', 'ok', {'w': where, 'r': D.arr_digest(exp)})

    def do_set(self, op):
        m = self.model
        idx = build_index(op['index'], m.shape)
        v = op['value']
        vd = m.dtype if v['dtype'] == 'same' else np.dtype(v['dtype'])
        try:
            tshape = m[idx].shape
        except Exception:
            tshape = ()
        if v['k'] == 'scalar':
            val = D.base_values('nonneg', (1,), vd, v['vseed'])[0]
        elif v['k'] == 'match':
            val = D.base_values('nonneg', tshape, vd, v['vseed'])
        elif v['k'] == 'lastaxis':
            val = D.base_values('nonneg', tshape[-1:] if tshape else (), vd, v['vseed'])
        elif v['k'] == 'float_into_int':
            val = 2.5
        else:
            val = D.base_values('nonneg', tuple(tshape) + (2,), vd, v['vseed'])
        newm = m.copy()
        mexc = None
        try:
            with np.errstate(all='ignore'):
                newm[idx] = val
        except Exception as e:   # noqa
            mexc = e.with_traceback(None)
        exc = None
        try:
            self.h[idx] = val
        except Exception as e:   # noqa
            exc = e.with_traceback(None)
        where = 'in_ctx' if self.ctx else 'plain'
        kind = op['index']['k']
        if mexc is not None:
            if exc is None:
                raise Viol('index.set', f'no_exception:{kind}', f'reference raises {type(mexc).__name__}')
            if not same_class(exc, mexc):
                raise Viol('index.set', f'wrong_class:{type(exc).__name__}_vs_{type(mexc).__name__}', str(exc)[:200])
            self.probe('set_rejected:' + type(mexc).__name__)
            self.log('set', 'rejected', {'w': where})
        else:
            if exc is not None:
                raise Viol('index.set', f'raises:{type(exc).__name__}:{kind}', f'{idx!r}: {str(exc)[:200]}')
            self.model = newm
            self.mutations_ok += 1
            self.mutated = True
            self.probe('set_ok:' + where)
            self.log('set', 'ok', {'w': where})
        # effect is visible through the live handle, a fresh handle and the raw file
        self.observe(self.h, 'index.live')
        if not self.ctx:
            try:
                fresh = self.darr.Array(self.path)
            except Exception as e:
                raise Viol('index.fresh', f'raises:{type(e).__name__}', str(e)[:200])
            self.observe(fresh, 'index.fresh')
            try:
                dec, _ = decode_array_dir(self.path)
            except DecodeError as e:
                raise Viol('index.rawfile', str(e).split(':')[0], str(e))
            if not D.arr_equal(dec, self.model)[0]:
                raise Viol('index.rawfile', 'assignment_not_in_file', '')

    def do_delete_end(self, op):
        self.close_ctx()
        exc = self.call(lambda: self.darr.delete_array(self.h))
        if exc is not None:
            self.probe('final_delete_raised')      # whether delete succeeds is C16's subject; held values are still checked
        self.h = None
        self.mutated = True
        self.probe('deleted_with_values_held')
        self.steps += 1
        self.emit({'step': self.idx, 'op': 'delete_end', 'out': 'ok'})

    def after_step(self, op):
        # structural ops of the base engine
        if op['op'] in ('append', 'truncate', 'iterappend'):
            self.mutated = True
        if self.h is not None:
            try:
                self.observe(self.h, 'index.live')
            except Viol as v:
                # the state after an append/truncate of the base history is C03's subject: without an agreed state
                # there is nothing to judge index expressions against
                raise Diverged(f'{v.oracle}:{v.signature}')

    mutated = False

    def check_hold(self, k):
        for got, raw, shape in self.hold:
            if got.shape != shape or np.ascontiguousarray(got).tobytes() != raw:
                raise Viol('index.hold', f'held_value_changed_after:{k}', '')
        if self.hold and self.mutated:
            self.probe('held_reverified_after_mutation')

    def check_leak(self, k):
        if self.ctx:
            return
        lk = leaks(self.path)
        if lk:
            raise Viol('index.leak', f'{lk[0][0]}_after:{k}', str(lk[:4]))


Indexing.state_cls = _IState
