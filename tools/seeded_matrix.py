#!/venv/bin/python
"""Run every seeded change under seeded/ against its property's quick check
(scratch worktree per change, removed afterwards) and write seeded/MATRIX.json
and seeded/MATRIX.md.  Usage: seeded_matrix.py [--jobs N] [ids...]"""
import json
import os
import subprocess
import sys

VERIF = os.path.dirname(os.path.dirname(os.path.abspath(__file__)))
S = os.path.join(VERIF, 'seeded')


def main():
    ids = [a for a in sys.argv[1:] if not a.startswith('--')] or \
        sorted(d for d in os.listdir(S) if os.path.isdir(os.path.join(S, d)))
    out = {}
    mp = os.path.join(S, 'MATRIX.json')
    if os.path.exists(mp) and len(ids) < 40:
        out = json.load(open(mp))
    jobs = 1
    for a in sys.argv[1:]:
        if a.startswith('--jobs='):
            jobs = int(a.split('=')[1])

    def one(i):
        d = os.path.join(S, i)
        meta = json.load(open(os.path.join(d, 'meta.json')))
        props = meta.get("detected_by") or [meta["breaks_property"]]
        cmd = ['/venv/bin/python', os.path.join(VERIF, 'tools', 'evalmut.py'), os.path.join(d, 'patch.diff'),
               os.path.join(d, 'demo.py')] + props + ['--notests']
        p = subprocess.run(cmd, capture_output=True, text=True, timeout=3600)
        t = p.stdout
        try:
            r = json.loads(t[t.index('{'):])
        except Exception:
            r = {'error': t[-500:] + p.stderr[-500:]}
        row = {'demo_without': r.get('demo_without'), 'demo_with': r.get('demo_with'), 'checks': {}}
        for k, v in (r.get('checks') or {}).items():
            row['checks'][k] = {'exit': v['exit'], 'violations': v['violations'], 'wall_s': v['wall'],
                                'first': [f.replace('violation: ', '')[:200] for f in v['first'][:1]]}
        return i, row

    from concurrent.futures import ThreadPoolExecutor
    with ThreadPoolExecutor(jobs) as ex:
        for i, row in ex.map(one, ids):
            out[i] = row
            print(i, json.dumps(row)[:300], flush=True)
            json.dump(out, open(mp, 'w'), indent=1, sort_keys=True)
    with open(os.path.join(S, 'MATRIX.md'), 'w') as f:
        f.write('| seeded change | demo without/with patch (exit) | check | exit | VIOLATION lines | first violation |\n|---|---|---|---|---|---|\n')
        for i in sorted(out):
            row = out[i]
            for k, v in row['checks'].items():
                f.write(f"| {i} | {row['demo_without']}/{row['demo_with']} | {k} | {v['exit']} | {v['violations']} | "
                        f"{(v['first'] or [''])[0].replace('|', '/')} |\n")
    caught = sum(1 for r in out.values() if any(v['exit'] == 1 and v['violations'] for v in r['checks'].values()))
    print(f'caught {caught} of {len(out)}')


if __name__ == '__main__':
    main()
