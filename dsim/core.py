"""dsim core: seeds, forked children, worker pool, digests, shrinking, replay files.

One integer (VERIF_SEED) decides everything: run i of property P draws its
scenario from random.Random(run_seed(VERIF_SEED, P, i)).  A scenario is plain
JSON data; executing it draws nothing.  Every run executes in a forked child
whose exit status is part of the observation.
"""
import hashlib
import json
import os
import random
import select
import shutil
import signal
import sys
import time
import traceback
from concurrent.futures import ProcessPoolExecutor
import multiprocessing as mp
from pathlib import Path

REPO = os.environ.get('VERIF_REPO', '/repo')
VERIF = str(Path(__file__).resolve().parent.parent)
_SHM = '/dev/shm' if os.path.isdir('/dev/shm') and os.access('/dev/shm', os.W_OK) else \
    os.environ.get('TMPDIR', '/tmp')
SANDBOX_ROOT = os.path.join(_SHM, f'darr-dsim-{os.getpid()}')


class HarnessError(Exception):
    """Bug or missing seam in the harness; never a VIOLATION."""


def import_darr():
    """Import darr from REPO's working tree (never from site-packages)."""
    if sys.path[0] != REPO:
        sys.path.insert(0, REPO)
    import darr
    f = os.path.realpath(darr.__file__)
    if not f.startswith(os.path.realpath(REPO) + os.sep):
        raise HarnessError(f'darr imported from {f}, not from {REPO}')
    return darr


def run_seed(verif_seed, prop, i):
    h = hashlib.sha256(f'{verif_seed}/{prop}/{i}'.encode()).digest()
    return int.from_bytes(h[:8], 'big')


def canon(obj):
    return json.dumps(obj, sort_keys=True, separators=(',', ':'), default=str)


def digest_of(lines):
    h = hashlib.sha256()
    for l in lines:
        h.update(l.encode() if isinstance(l, str) else canon(l).encode())
        h.update(b'\n')
    return h.hexdigest()


# --------------------------------------------------------------------------
# forked child with a line protocol
# --------------------------------------------------------------------------

def _child_main(fn, arg, wfd):
    """Runs in the forked child.  Emits JSON lines on wfd; the last one has
    key 'final'.  Never returns."""
    out = os.fdopen(wfd, 'w', buffering=1)

    def emit(obj):
        out.write(canon(obj) + '\n')
        out.flush()
    code = 0
    try:
        res = fn(arg, emit)
        emit({'final': res})
    except BaseException:
        try:
            emit({'final': {'harness_error': traceback.format_exc()}})
        except BaseException:
            code = 3
    try:
        out.flush()
    finally:
        os._exit(code)


def run_child(fn, arg, timeout=60.0):
    """Fork, run fn(arg, emit) in the child, collect emitted lines.

    Returns dict(events=[...], final=dict|None, signal=int|None, exit=int|None,
    timeout=bool)."""
    r, w = os.pipe()
    sys.stdout.flush()
    sys.stderr.flush()
    pid = os.fork()
    if pid == 0:
        os.close(r)
        signal.signal(signal.SIGINT, signal.SIG_IGN)
        _child_main(fn, arg, w)
    os.close(w)
    buf = bytearray()
    deadline = time.monotonic() + timeout
    timed_out = False
    while True:
        left = deadline - time.monotonic()
        if left <= 0:
            timed_out = True
            break
        rl, _, _ = select.select([r], [], [], min(left, 1.0))
        if rl:
            chunk = os.read(r, 1 << 16)
            if not chunk:
                break
            buf += chunk
    os.close(r)
    if timed_out:
        try:
            os.kill(pid, signal.SIGKILL)
        except ProcessLookupError:
            pass
    _, status = os.waitpid(pid, 0)
    sig = os.WTERMSIG(status) if os.WIFSIGNALED(status) else None
    code = os.WEXITSTATUS(status) if os.WIFEXITED(status) else None
    events, final = [], None
    for line in bytes(buf).split(b'\n'):
        if not line:
            continue
        try:
            obj = json.loads(line)
        except ValueError:
            continue  # torn last line of a killed child
        if isinstance(obj, dict) and 'final' in obj and len(obj) == 1:
            final = obj['final']
        else:
            events.append(obj)
    return dict(events=events, final=final, signal=sig if not timed_out else None,
                exit=code, timeout=timed_out)


# --------------------------------------------------------------------------
# sandbox
# --------------------------------------------------------------------------

def make_sandbox(tag):
    p = os.path.join(SANDBOX_ROOT, tag)
    shutil.rmtree(p, ignore_errors=True)
    os.makedirs(p)
    return p


def drop_sandbox(p):
    # make everything removable (read-only dirs planted by scenarios)
    for root, dirs, files in os.walk(p):
        for d in dirs:
            try:
                os.chmod(os.path.join(root, d), 0o700)
            except OSError:
                pass
    shutil.rmtree(p, ignore_errors=True)


def drop_sandbox_root():
    shutil.rmtree(SANDBOX_ROOT, ignore_errors=True)


# --------------------------------------------------------------------------
# line coverage of REPO/darr in sampled runs (sys.monitoring; reach, not a verdict)
# --------------------------------------------------------------------------

COV_SAMPLE = 96        # the first runs of every batch are measured


def _cov_start():
    mon = sys.monitoring
    hits = set()
    prefix = os.path.join(os.path.realpath(REPO), 'darr') + os.sep
    skip = os.path.join(prefix, 'tests') + os.sep

    def on_line(code, line):
        fn = code.co_filename
        if fn.startswith(prefix) and not fn.startswith(skip) and not fn.endswith('_version.py'):
            hits.add((fn[len(prefix):], line))
        return mon.DISABLE
    try:
        mon.use_tool_id(mon.COVERAGE_ID, 'dsim-cov')
        mon.register_callback(mon.COVERAGE_ID, mon.events.LINE, on_line)
        mon.set_events(mon.COVERAGE_ID, mon.events.LINE)
    except Exception:
        return None
    return hits


def _cov_stop():
    mon = sys.monitoring
    try:
        mon.set_events(mon.COVERAGE_ID, 0)
        mon.free_tool_id(mon.COVERAGE_ID)
    except Exception:
        pass


def executable_lines():
    """{relative file: set of line numbers that carry code} for REPO/darr (tests excluded)"""
    root = os.path.join(os.path.realpath(REPO), 'darr')
    out = {}
    for fn in sorted(os.listdir(root)):
        if not fn.endswith('.py') or fn == '_version.py':
            continue
        p = os.path.join(root, fn)
        try:
            with open(p, encoding='utf-8') as f:
                code = compile(f.read(), p, 'exec')
        except Exception:
            continue
        lines = set()
        stack = [code]
        while stack:
            c = stack.pop()
            if c.co_flags & 0x1:          # function bodies only: module and class bodies run at import, before measuring
                first = True
                for _, _, ln in c.co_lines():
                    if ln and not (first and ln == c.co_firstlineno):
                        lines.add(ln)
                    first = False
            for k in c.co_consts:
                if hasattr(k, 'co_lines'):
                    stack.append(k)
        out[fn] = lines
    return out


# --------------------------------------------------------------------------
# executing one scenario
# --------------------------------------------------------------------------

def execute_scenario(engine, scenario, tag, timeout=None, cov=False):
    """Run one scenario of `engine` in a forked child inside a fresh sandbox.

    Returns a run record:
      verdict: 'held' | 'violation' | 'harness_error' | 'timeout'
      violation: {oracle, signature, op_index, detail} | None
      digest, stats, events
    """
    sb = make_sandbox(tag)
    timeout = timeout or float(os.environ.get('DSIM_RUN_TIMEOUT', 0)) or getattr(engine, 'run_timeout', 60.0)

    def body(arg, emit):
        hits = _cov_start() if cov else None
        res = engine.run(scenario, sb, emit)
        if hits is not None:
            _cov_stop()
            if isinstance(res, dict):
                res.setdefault('stats', {})['cov'] = sorted(f'{f}:{l}' for f, l in hits)
        return res
    try:
        res = run_child(body, None, timeout=timeout)
    finally:
        drop_sandbox(sb)
    events, final = res['events'], res['final']
    rec = dict(verdict='held', violation=None, stats={}, events=events,
               digest=None, detail=None)
    if res['timeout']:
        v = engine.judge_timeout(scenario, events)
        if v is None:
            rec['verdict'] = 'timeout'
            rec['detail'] = f'run exceeded {timeout}s; events so far: {len(events)}'
        else:
            rec['verdict'], rec['violation'] = 'violation', v
    elif final is None:
        # the child died (signal or hard exit) before finishing
        v = engine.judge_death(scenario, events, res['signal'], res['exit'])
        if v is None:
            rec['verdict'] = 'harness_error'
            rec['detail'] = f"child died signal={res['signal']} exit={res['exit']}"
        else:
            rec['verdict'], rec['violation'] = 'violation', v
    elif 'harness_error' in final:
        rec['verdict'] = 'harness_error'
        rec['detail'] = final['harness_error']
    else:
        rec['stats'] = final.get('stats', {})
        if final.get('violation'):
            v = final['violation']
            det = str(v.get('detail'))
            if ('No space left on device' in det or 'Disk quota exceeded' in det or 'Too many open files in system' in det) \
                    and 'injected' not in det and 'fault' not in v.get('oracle', ''):
                # the sandbox itself ran out of space: an environment problem, not a verdict
                rec['verdict'] = 'harness_error'
                rec['detail'] = 'environment: ' + det[:300]
            else:
                rec['verdict'], rec['violation'] = 'violation', v
    loglines = [canon(e) for e in events]
    loglines.append(canon({'verdict': rec['verdict'],
                           'sig': (rec['violation'] or {}).get('signature')}))
    rec['digest'] = digest_of(loglines)
    return rec


def same_failure(v1, v2):
    return (v1 is not None and v2 is not None and v1['oracle'] == v2['oracle']
            and v1['signature'] == v2['signature'] and v1.get('op') == v2.get('op'))


# --------------------------------------------------------------------------
# generic shrinking (ddmin over scenario['ops'] + engine-specific simplifiers)
# --------------------------------------------------------------------------

def shrink(engine, scenario, violation, tag, budget=300):
    """Return (scenario, violation, runs_used).  Accept a candidate only if it
    fails with the same oracle and signature."""
    used = 0
    best, bestv = scenario, violation

    def fails(cand):
        nonlocal used
        used += 1
        rec = execute_scenario(engine, cand, f'{tag}-s{used}')
        if rec['verdict'] == 'violation' and same_failure(rec['violation'], violation):
            return rec['violation']
        return None

    outer = True
    while outer and used < budget:
        outer = False
        before = canon(best)
        # 1. ddmin on ops
        ops = list(best.get('ops', []))
        lo = engine.shrink_keep_prefix(best)  # number of leading ops never dropped
        n = 2
        while len(ops) - lo >= 1 and used < budget:
            tail = ops[lo:]
            chunk = max(1, len(tail) // n)
            removed = False
            i = 0
            while i < len(tail) and used < budget:
                cand_tail = tail[:i] + tail[i + chunk:]
                cand = dict(best, ops=ops[:lo] + cand_tail)
                v = fails(cand)
                if v:
                    best, bestv = cand, v
                    ops = list(cand['ops'])
                    tail = ops[lo:]
                    removed = True
                    n = max(n - 1, 2)
                else:
                    i += chunk
            if not removed:
                if chunk == 1:
                    break
                n = min(n * 2, max(2, len(tail)))
        # 2. engine-specific simplification passes to fixpoint
        progress = True
        while progress and used < budget:
            progress = False
            for cand in engine.simplify(best):
                if used >= budget:
                    break
                if canon(cand) == canon(best):
                    continue
                v = fails(cand)
                if v:
                    best, bestv = cand, v
                    progress = True
                    break
        if canon(best) != before:
            outer = True
    return best, bestv, used


# --------------------------------------------------------------------------
# Engine base class
# --------------------------------------------------------------------------

class Engine:
    prop = '?'
    level = 'exploration'
    run_timeout = 60.0
    quick_runs = 1000
    thorough_runs = 20000
    batch = 25
    quick_wall_cap = 110.0
    thorough_wall_cap = 1500.0

    def gen(self, rng, i, tier):
        raise NotImplementedError

    def run(self, scenario, sandbox, emit):
        raise NotImplementedError

    def judge_death(self, scenario, events, sig, code):
        return None

    def judge_timeout(self, scenario, events):
        return None

    def shrink_keep_prefix(self, scenario):
        return 0

    def simplify(self, scenario):
        return iter(())

    def features(self, scenario, violation):
        return []

    def components(self):
        return {'real': ['darr (all modules, from the working tree)', 'numpy', 'CPython', 'kernel tmpfs'],
                'stub': []}

    def rule(self):
        return ''

    def nontrivial(self, scenario, stats):
        return True


# --------------------------------------------------------------------------
# batch runner
# --------------------------------------------------------------------------

_ENGINE = None


def _worker_batch(args):
    engine_name, verif_seed, tier, indices = args
    from . import registry
    engine = registry.get(engine_name)
    out = []
    for i in indices:
        rng = random.Random(run_seed(verif_seed, engine.prop, i))
        try:
            scenario = engine.gen(rng, i, tier)
        except Exception:
            out.append(dict(i=i, verdict='harness_error', detail='gen: ' + traceback.format_exc(),
                            scenario=None, violation=None, stats={}, digest=None))
            continue
        rec = execute_scenario(engine, scenario, f'w{os.getpid()}-r{i}', cov=(i % 997) < COV_SAMPLE // 8 or i < COV_SAMPLE)
        keep = rec['verdict'] != 'held'
        out.append(dict(i=i, verdict=rec['verdict'], violation=rec['violation'],
                        detail=rec['detail'], stats=rec['stats'], digest=rec['digest'],
                        scenario=scenario if keep or i < 3 else None,
                        nontrivial=engine.nontrivial(scenario, rec['stats']),
                        enumerated=bool(scenario.get('enumerated')),
                        sdig=hashlib.sha256(canon(scenario).encode()).hexdigest()[:16]))
    return out


def run_batches(engine_name, engine, verif_seed, tier, nruns, jobs, wall_cap, on_result,
                start=0):
    """Run scenarios start..start+nruns-1 over a fork pool.  Calls on_result for
    every run record, in index order per batch."""
    t0 = time.monotonic()
    idx = list(range(start, start + nruns))
    batches = [idx[k:k + engine.batch] for k in range(0, len(idx), engine.batch)]
    truncated = False
    ctx = mp.get_context('fork')
    done_runs = 0
    with ProcessPoolExecutor(max_workers=jobs, mp_context=ctx) as ex:
        pending = []
        bi = 0
        # keep at most 2*jobs batches in flight so a wall cap can stop early
        import concurrent.futures as cf
        inflight = set()
        while bi < len(batches) or inflight:
            while bi < len(batches) and len(inflight) < 2 * jobs:
                if time.monotonic() - t0 > wall_cap:
                    truncated = True
                    bi = len(batches)
                    break
                inflight.add(ex.submit(_worker_batch, (engine_name, verif_seed, tier, batches[bi])))
                bi += 1
            if not inflight:
                break
            done, inflight = cf.wait(inflight, return_when=cf.FIRST_COMPLETED)
            for f in done:
                for rec in f.result():
                    done_runs += 1
                    on_result(rec)
    return dict(truncated=truncated, wall=time.monotonic() - t0, runs=done_runs)


class Union(Engine):
    """Several sub-engines behind one property: each run draws its sub-engine."""

    def __init__(self, prop, subs, **kw):
        self.prop = prop
        self.subs = subs          # list of (weight, engine)
        for _, e in subs:
            e.prop = prop
        for k, v in kw.items():
            setattr(self, k, v)

    def _sub(self, scenario):
        return self.subs[scenario['sub']][1]

    def gen(self, rng, i, tier):
        # bounded-exhaustive parts of the sub-engines come first, one after the other
        if tier == 'thorough':
            off = 0
            for k, (_, e) in enumerate(self.subs):
                n = e.enum_total() if hasattr(e, 'enum_total') else 0
                if i < off + n:
                    sc = e.gen(rng, i - off, tier)
                    sc['sub'] = k
                    return sc
                off += n
        k = rng.choices(range(len(self.subs)), [w for w, _ in self.subs])[0]
        sc = self.subs[k][1].gen(rng, i, tier)
        sc['sub'] = k
        return sc

    def run(self, scenario, sandbox, emit):
        return self._sub(scenario).run(scenario, sandbox, emit)

    def judge_death(self, scenario, events, sig, code):
        return self._sub(scenario).judge_death(scenario, events, sig, code)

    def judge_timeout(self, scenario, events):
        return self._sub(scenario).judge_timeout(scenario, events)

    def shrink_keep_prefix(self, scenario):
        return self._sub(scenario).shrink_keep_prefix(scenario)

    def simplify(self, scenario):
        for c in self._sub(scenario).simplify(scenario):
            c['sub'] = scenario['sub']
            yield c

    def features(self, scenario, violation):
        return [f'sub={type(self._sub(scenario)).__name__}'] + self._sub(scenario).features(scenario, violation)

    def nontrivial(self, scenario, stats):
        return self._sub(scenario).nontrivial(scenario, stats)

    def rule(self):
        return ' || '.join(e.rule() for _, e in self.subs)

    def components(self):
        c = {'real': [], 'stub': []}
        for _, e in self.subs:
            for k in c:
                for x in e.components()[k]:
                    if x not in c[k]:
                        c[k].append(x)
        return c
