"""Property id -> engine instance."""
_CACHE = {}


def _build(name):
    from .engines import arrayhist as AH
    if name == 'C03':
        e = AH.ArrayHistory()
        e.enum_alphabet = AH.C03_ALPHABET
        return e
    if name == 'C02':
        e = AH.ArrayHistory()
        e.prop = 'C02'
        e.oracles = ('decoder',)
        e.weights = dict(append=20, iterappend=12, setitem=12, truncate=14, mode=3, reopen=6,
                         append_bad=3, truncate_bad=2, meta=8, recreate=8, iterappend_fail=6, copycheck=3, ctx=6, iterbreak=3)
        return e
    from .engines import raggedhist as RH
    if name == 'C04':
        e = RH.RaggedHistory()
        e.enum_alphabet = RH.C04_ALPHABET
        return e
    if name == 'C05':
        e = RH.RaggedHistory()
        e.prop = 'C05'
        e.oracles = ('decoder',)
        e.weights = dict(e.weights, recreate=4, copycheck=3)
        return e
    from .core import Union
    if name == 'C08':
        a = AH.ArrayHistory()
        a.oracles = ('readme',)
        a.weights = dict(append=18, iterappend=10, setitem=4, truncate=14, mode=3, reopen=8,
                         append_bad=3, truncate_bad=2, meta=22, recreate=10, iterappend_fail=6, copycheck=6)
        r = RH.RaggedHistory()
        r.oracles = ('readme',)
        r.weights = dict(append=26, iterappend=12, truncate=16, mode=3, reopen=10, append_bad=3,
                         truncate_bad=2, getbad=0, iter=0, meta=8, iterappend_fail=7, copycheck=5, recreate=5)
        r.many_p = 0.45
        return Union('C08', [(1, a), (1, r)], quick_runs=2500, thorough_runs=60000, batch=25)
    if name == 'C13':
        a = AH.ArrayHistory()
        a.oracles = ('meta',)
        a.weights = dict(append=2, iterappend=0, setitem=0, truncate=2, mode=3, reopen=10,
                         append_bad=0, truncate_bad=0, meta=80, recreate=3)
        r = RH.RaggedHistory()
        r.oracles = ('meta',)
        r.weights = dict(append=2, iterappend=0, truncate=2, mode=3, reopen=10, append_bad=0,
                         truncate_bad=0, getbad=0, iter=0, meta=80, recreate=5)
        r.create_empty_p = 0.05
        from . import meta as MM
        a.enum_alphabet = MM.C13_ALPHABET
        a.enum_starts = [
            {'op': 'create', 'how': 'asarray', 'mode': 'r+', 'chunklen': None,
             'data': {'gen': 'arange', 'rows': 2, 'trail': [], 'dtype': '<f8', 'layout': 'C', 'form': 'ndarray', 'vseed': 1}},
            {'op': 'create', 'how': 'asarray', 'mode': 'r+', 'chunklen': None, 'metadata': {'a': {'k': 'float', 'v': 0.5}, 'b': {'k': 'str', 'v': 'x'}},
             'data': {'gen': 'arange', 'rows': 2, 'trail': [], 'dtype': '<f8', 'layout': 'C', 'form': 'ndarray', 'vseed': 1}},
        ]
        return Union('C13', [(3, a), (1, r)], quick_runs=5000, thorough_runs=150000, batch=40)
    if name == 'C11':
        a = AH.ArrayHistory()
        a.oracles = ('ro', 'model', 'fresh')
        a.weights = dict(append=14, iterappend=8, setitem=14, truncate=10, mode=14, reopen=10,
                         append_bad=2, truncate_bad=0, meta=22, recreate=0, delete=4, iterappend_fail=2, iterbreak=6, metamode=5)
        a.reopen_modes = ('r', 'default', 'default', 'r+')
        a.create_r_p = 0.5
        r = RH.RaggedHistory()
        r.oracles = ('ro', 'model', 'fresh')
        r.weights = dict(append=18, iterappend=10, truncate=12, mode=14, reopen=10, append_bad=2,
                         truncate_bad=0, getbad=0, iter=0, meta=22, delete=4, iterappend_fail=2, metamode=5)
        r.reopen_modes = ('r', 'default', 'default', 'r+')
        r.create_r_p = 0.5
        r.create_empty_p = 0.1
        return Union('C11', [(1, a), (1, r)], quick_runs=2500, thorough_runs=60000, batch=25)
    from .engines import appendfault as AF
    if name == 'C09':
        return AF.ArrayAppendFault()
    if name == 'C10':
        return AF.RaggedAppendFault()
    if name == 'C17':
        from .engines import crash
        return crash.build()
    if name == 'C18':
        from .engines import corrupt
        return corrupt.build()
    if name == 'C19':
        from .engines import sched
        return sched.Sched()
    if name == 'C14':
        from .engines import sched
        return sched.Frames()
    if name == 'C12':
        from .engines import indexing
        return indexing.Indexing()
    if name == 'C01':
        from .engines import creation
        return creation.Creation()
    if name == 'C15':
        from .engines import replica
        return replica.Replica()
    if name == 'C16':
        from .engines import foreign
        return foreign.Foreign()
    if name == 'C20':
        from .engines import datadir
        return datadir.DataDirEngine()
    if name == 'C06':
        from .engines import readcode
        return readcode.ArrayReadCode()
    if name == 'C07':
        from .engines import readcode
        return readcode.RaggedReadCode()
    raise KeyError(name)


# (quick runs, thorough runs), calibrated on this box (16 workers): quick ~30-50 s, thorough ~10-15 min
RUNS = {'C01': (10000, 200000), 'C02': (8000, 160000), 'C03': (10000, 200000), 'C04': (2500, 70000),
        'C05': (3000, 60000), 'C06': (3000, 60000), 'C07': (1500, 30000), 'C08': (2500, 50000),
        'C09': (18000, 300000), 'C10': (5000, 100000), 'C11': (5000, 100000), 'C12': (10000, 200000),
        'C13': (8000, 200000), 'C14': (12000, 200000), 'C15': (3500, 60000), 'C16': (15000, 250000),
        'C17': (2000, 40000), 'C18': (10000, 200000), 'C19': (5000, 100000), 'C20': (12000, 200000)}


def get(name):
    if name not in _CACHE:
        e = _build(name)
        if name in RUNS:
            e.quick_runs, e.thorough_runs = RUNS[name]
        e.quick_wall_cap = 100.0
        e.thorough_wall_cap = 1500.0
        _CACHE[name] = e
    return _CACHE[name]


ALL = ['C%02d' % i for i in range(1, 21)]
