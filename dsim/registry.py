"""Property id -> engine instance."""
_CACHE = {}


def _build(name):
    from .engines import arrayhist as AH
    if name == 'C03':
        return AH.ArrayHistory()
    if name == 'C02':
        e = AH.ArrayHistory()
        e.prop = 'C02'
        e.oracles = ('decoder',)
        e.weights = dict(append=20, iterappend=12, setitem=12, truncate=14, mode=3, reopen=6,
                         append_bad=3, truncate_bad=2, meta=8, recreate=8)
        return e
    raise KeyError(name)


def get(name):
    if name not in _CACHE:
        _CACHE[name] = _build(name)
    return _CACHE[name]


ALL = ['C%02d' % i for i in range(1, 21)]
