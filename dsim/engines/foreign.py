"""Foreign-content engine (C16): the simulator plants files, directories and
symlinks that are not Darr's into and around array directories, then fires
delete_* or one of the creating functions; a byte snapshot of the PARENT of
the target (so that symlink targets outside the array are covered) decides
what was destroyed."""
import copy
import os
import pathlib
import numpy as np

from ..core import Engine, import_darr, HarnessError
from ..oracles import snapshot, snap_diff
from .arrayhist import Viol

CREATORS = ['asarray', 'create_array', 'asraggedarray', 'create_raggedarray', 'copy', 'ragged_copy', 'archive']
DELETERS = ['delete_array', 'delete_raggedarray']
STALE = ['delete_stale_array', 'delete_stale_ragged']
OCCUPANTS = ['array', 'array_meta', 'array_big', 'ragged', 'ragged_meta', 'plaindir', 'plainfile', 'missing']
FKINDS = ['file', 'dir', 'symfile', 'symdir', 'collision', 'hidden', 'emptydir']


class Foreign(Engine):
    prop = 'C16'
    quick_runs = 6000
    thorough_runs = 120000
    batch = 40

    def gen(self, rng, i, tier):
        occ = rng.choice(OCCUPANTS)
        act = rng.choice(DELETERS * 3 + CREATORS + STALE)
        ops = []
        if occ not in ('plainfile', 'missing'):
            for _ in range(rng.choice([0, 1, 1, 1, 2, 3])):
                where = 'top'
                if occ.startswith('ragged'):
                    where = rng.choice(['top', 'values', 'indices'])
                kind = rng.choice(FKINDS)
                if kind == 'collision' and (occ in ('array_meta', 'ragged_meta') or where != 'top' and occ.startswith('ragged')
                                            and False):
                    kind = 'file'
                ops.append({'op': 'plant', 'where': where, 'kind': kind, 'name': rng.choice(['notes.txt', 'extra', 'x.bin', 'lab book.md', 'ü'])})
        action = {'act': act, 'form': rng.choice(['object', 'str', 'Path']), 'overwrite': rng.random() < 0.5,
                  'newmeta': rng.random() < 0.3, 'rows': rng.choice([0, 1, 3, 9]), 'ctype': rng.choice(['gz', 'bz2', 'xz']),
                  'existing_archive': rng.random() < 0.5,
                  # the source of a creating call may itself fail part-way (a fault of the caller's iterable)
                  'source_fails': rng.random() < 0.3}
        action['emptymeta'] = rng.random() < 0.4     # drawn last: earlier draws keep their meaning
        return {'engine': 'Foreign', 'prop': 'C16', 'occupant': occ, 'ops': ops, 'action': action}

    def simplify(self, sc):
        a = sc['action']
        for key, val in (('form', 'str'), ('newmeta', False), ('rows', 1)):
            if a.get(key) != val:
                c = copy.deepcopy(sc)
                c['action'][key] = val
                yield c
        for i, op in enumerate(sc['ops']):
            if op['kind'] != 'file':
                c = copy.deepcopy(sc)
                c['ops'][i]['kind'] = 'file'
                yield c
            if op['name'] != 'notes.txt':
                c = copy.deepcopy(sc)
                c['ops'][i]['name'] = 'notes.txt'
                yield c

    def features(self, sc, v):
        return ['occupant=' + sc['occupant'], 'act=' + sc['action']['act'],
                'overwrite' if sc['action']['overwrite'] else 'no_overwrite', f'foreign={len(sc["ops"])}']

    def rule(self):
        return ('target path occupied by {Array, Array+metadata, larger Array, RaggedArray(+metadata), plain dir, plain file, '
                'nothing}; 0-3 foreign entries {file, nested dir, symlink to file/dir outside, directory named metadata.json, '
                'hidden file, empty dir} planted at top/values/indices; one action {delete_array, delete_raggedarray as '
                'object/str/Path incl. wrong kind; asarray, create_array, asraggedarray, create_raggedarray, copy, '
                'RaggedArray.copy, archive} x overwrite; snapshot of the parent directory before/after; non-trivial = the '
                'action ran against an existing occupant or foreign content; distinct = distinct scenario digests')

    def nontrivial(self, scenario, stats):
        return scenario['occupant'] != 'missing' or bool(scenario['ops'])

    def run(self, sc, sandbox, emit):
        darr = import_darr()
        st = {'steps': 0, 'probes': {}, 'faults': {}, 'transitions': set(), 'extra': {}}
        viol = None
        try:
            self._run(darr, sc, sandbox, emit, st)
        except Viol as v:
            viol = {'oracle': v.oracle, 'signature': v.signature, 'op_index': None, 'op': sc['action']['act'], 'detail': v.detail}
            emit({'violation': v.oracle + ':' + v.signature})
        st['transitions'] = sorted(st['transitions'])
        return {'violation': viol, 'stats': st}

    @staticmethod
    def _newmeta(a):
        return {'n': 2} if a['newmeta'] else ({} if a.get('emptymeta') else None)

    def _create(self, darr, act, a, tpath, src, overwrite, source_fails):
        md = self._newmeta(a)
        if act == 'asarray':
            src_arr = np.arange(a['rows'] * 3, dtype='<i2').reshape(a['rows'], 3)
            if source_fails:
                def failing():
                    yield np.arange(6, dtype='<i2').reshape(2, 3)
                    yield np.arange(3, dtype='<i2').reshape(1, 3)
                    raise RuntimeError('source failed (injected)')
                src_arr = failing()
            darr.asarray(tpath, src_arr, overwrite=overwrite, metadata=md)
        elif act == 'create_array':
            ff = None
            if source_fails:
                calls = []

                def ff(i):
                    calls.append(1)
                    if len(calls) > 1:
                        raise RuntimeError('fillfunc failed (injected)')
                    return i
            darr.create_array(tpath, shape=(max(a['rows'], 9), 2), dtype='float32', chunklen=4, overwrite=overwrite,
                              fillfunc=ff, metadata=md)
        elif act == 'asraggedarray':
            items = [np.arange(k + 1.) for k in range(a['rows'] + 1)]
            if source_fails:
                def failing_items():
                    yield np.arange(2.)
                    yield np.arange(3.)
                    raise RuntimeError('source failed (injected)')
                items = failing_items()
            darr.asraggedarray(tpath, items, overwrite=overwrite, metadata=md)
        elif act == 'create_raggedarray':
            darr.create_raggedarray(tpath, atom=(2,), dtype='int16', overwrite=overwrite, metadata=md)
        elif act in ('copy', 'ragged_copy'):
            src.copy(tpath, overwrite=overwrite)

    def _run(self, darr, sc, sb, emit, st):
        parent = os.path.join(sb, 'p')
        outside = os.path.join(parent, 'outside')
        os.makedirs(outside)
        with open(os.path.join(outside, 'precious.dat'), 'wb') as f:
            f.write(b'precious bytes outside the array\n' * 4)
        os.makedirs(os.path.join(outside, 'precious_dir'))
        with open(os.path.join(outside, 'precious_dir', 'inner.txt'), 'wb') as f:
            f.write(b'inner')
        target = os.path.join(parent, 't.darr')
        occ = sc['occupant']
        handle = None
        stale = None
        if sc['action']['act'] in STALE:
            # an r+ object of an array that is then deleted through its path; the path is reused afterwards
            if sc['action']['act'] == 'delete_stale_array':
                stale = darr.asarray(target, np.arange(3.), accessmode='r+', metadata={'old': 1})
                darr.delete_array(target)
            else:
                stale = darr.asraggedarray(target, [np.arange(2.)], accessmode='r+', metadata={'old': 1})
                darr.delete_raggedarray(target)
        if occ in ('array', 'array_meta', 'array_big'):
            n = 50 if occ == 'array_big' else 4
            handle = darr.asarray(target, np.arange(n * 2, dtype='<i4').reshape(n, 2), accessmode='r+',
                                  metadata={'fs': 1, 'who': 'me'} if occ == 'array_meta' else None)
        elif occ in ('ragged', 'ragged_meta'):
            handle = darr.asraggedarray(target, [np.arange(3.), np.arange(0.), np.arange(2.)], accessmode='r+',
                                        metadata={'fs': 1} if occ == 'ragged_meta' else None)
        elif occ == 'plaindir':
            os.makedirs(target)
            with open(os.path.join(target, 'userfile.txt'), 'wb') as f:
                f.write(b'user data\n')
            if stale is not None:
                for nm in ('README.txt', 'metadata.json'):       # a user's own files that happen to have these names
                    with open(os.path.join(target, nm), 'wb') as f:
                        f.write(b'not written by Darr\n')
        elif occ == 'plainfile':
            with open(target, 'wb') as f:
                f.write(b'i am a plain file\n')
        # plant foreign content; remember the relative paths that are foreign
        foreign = set()
        if occ == 'plaindir':
            foreign.add('t.darr/userfile.txt')
            if stale is not None:
                foreign.update({'t.darr/README.txt', 't.darr/metadata.json'})
        if occ == 'plainfile':
            foreign.add('t.darr')
        for j, op in enumerate(sc['ops']):
            base = target if op['where'] == 'top' else os.path.join(target, op['where'])
            if not os.path.isdir(base):
                continue
            name = f'{op["name"]}{j}'
            kind = op['kind']
            p = os.path.join(base, name)
            if kind == 'file':
                with open(p, 'wb') as f:
                    f.write(b'foreign file %d\n' % j)
            elif kind == 'hidden':
                p = os.path.join(base, '.hidden%d' % j)
                with open(p, 'wb') as f:
                    f.write(b'hidden')
            elif kind == 'dir':
                os.makedirs(p)
                with open(os.path.join(p, 'deep.txt'), 'wb') as f:
                    f.write(b'deep foreign\n')
                foreign.add(os.path.relpath(os.path.join(p, 'deep.txt'), parent))
            elif kind == 'emptydir':
                os.makedirs(p)
            elif kind == 'symfile':
                os.symlink(os.path.join(outside, 'precious.dat'), p)
            elif kind == 'symdir':
                os.symlink(os.path.join(outside, 'precious_dir'), p)
            elif kind == 'collision':
                p = os.path.join(base, 'metadata.json')
                if os.path.lexists(p):
                    continue
                os.makedirs(p)
                with open(os.path.join(p, 'inside.txt'), 'wb') as f:
                    f.write(b'a directory named like a Darr file\n')
                foreign.add(os.path.relpath(os.path.join(p, 'inside.txt'), parent))
            foreign.add(os.path.relpath(p, parent))
        nforeign_inside = len([f for f in foreign if f not in ('t.darr',)])
        for rel in ('outside', 'outside/precious.dat', 'outside/precious_dir', 'outside/precious_dir/inner.txt'):
            foreign.add(rel)
        # a source for copy actions
        a = sc['action']
        act = a['act']
        src = None
        if act == 'copy':
            src = darr.asarray(os.path.join(parent, 'src.darr'), np.arange(a['rows'] * 2, dtype='<f8').reshape(a['rows'], 2),
                               metadata={'k': 1} if a['newmeta'] else None)
        elif act == 'ragged_copy':
            src = darr.asraggedarray(os.path.join(parent, 'src.darr'), [np.arange(float(k)) for k in range(max(1, a['rows']))],
                                     metadata={'k': 1} if a['newmeta'] else None)
        elif act == 'archive':
            src = handle
        pre = snapshot(parent)
        form = a['form']
        tpath = pathlib.Path(target) if form == 'Path' else target
        exists = occ != 'missing'
        exc = None
        archive_path = None
        try:
            if act == 'delete_array':
                darr.delete_array(handle if (form == 'object' and handle is not None) else tpath)
            elif act == 'delete_raggedarray':
                darr.delete_raggedarray(handle if (form == 'object' and handle is not None) else tpath)
            elif act == 'delete_stale_array':
                darr.delete_array(stale)
            elif act == 'delete_stale_ragged':
                darr.delete_raggedarray(stale)
            elif act in CREATORS and act != 'archive':
                if a.get('source_fails') and act in ('asarray', 'create_array', 'asraggedarray'):
                    st['probes']['creator_source_failed'] = 1
                self._create(darr, act, a, tpath, src, a['overwrite'], a.get('source_fails'))
            elif act == 'archive':
                if src is None:
                    st['probes']['archive_without_array'] = 1
                    return
                archive_path = os.path.join(parent, f'arch.tar.{a["ctype"]}')
                if a['existing_archive']:
                    with open(archive_path, 'wb') as f:
                        f.write(b'an existing archive that is not ours\n')
                    pre = snapshot(parent)
                src.archive(filepath=pathlib.Path(archive_path) if form == 'Path' else archive_path,
                            compressiontype=a['ctype'], overwrite=a['overwrite'])
        except Exception as e:   # noqa
            exc = e
        post = snapshot(parent)
        tag = f'{act}:{occ}'
        # 1. foreign entries are byte-identical, always
        for rel in sorted(foreign):
            if rel == 't.darr' and occ != 'plainfile':
                continue
            if pre.get(rel) != post.get(rel):
                how = 'removed' if rel not in post else 'modified'
                raise Viol('foreign.destroyed', f'{tag}:{how}', f'{rel} ({"raised " + type(exc).__name__ if exc else "no exception"})')
        is_array = occ.startswith('array')
        is_ragged = occ.startswith('ragged')
        if act in STALE:
            # whatever lives at the path now is not the array this object was made for
            same_kind = (act == 'delete_stale_array' and is_array) or (act == 'delete_stale_ragged' and is_ragged)
            if not same_kind:
                d = snap_diff(pre, post)
                if d:
                    raise Viol('foreign.stale_object', f'{tag}:changed', d)
                if exc is None and occ != 'missing':
                    raise Viol('foreign.stale_object', f'{tag}:no_exception', '')
            st['probes']['stale_object_delete'] = 1
        elif act in DELETERS:
            right = (act == 'delete_array' and is_array) or (act == 'delete_raggedarray' and is_ragged)
            if not right:
                if not isinstance(exc, TypeError):
                    raise Viol('foreign.wrong_kind', f'{tag}:{type(exc).__name__ if exc else "no_exception"}', str(exc)[:200])
                d = snap_diff(pre, post)
                if d:
                    raise Viol('foreign.wrong_kind', f'{tag}:changed', d)
                st['probes']['wrong_kind_refused'] = 1
            elif nforeign_inside:
                if not isinstance(exc, OSError):
                    raise Viol('foreign.delete', f'{tag}:foreign_content:{type(exc).__name__ if exc else "no_exception"}', str(exc)[:200])
                st['probes']['delete_refused_foreign_content'] = 1
            else:
                if exc is not None:
                    raise Viol('foreign.delete', f'{tag}:raises:{type(exc).__name__}', str(exc)[:200])
                if os.path.lexists(target):
                    raise Viol('foreign.delete', f'{tag}:something_remains', str(sorted(os.listdir(target)))[:200])
                st['probes']['delete_complete'] = 1
        elif act == 'archive':
            if a['existing_archive'] and not a['overwrite']:
                if exc is None:
                    raise Viol('foreign.archive', f'{tag}:existing_replaced_without_overwrite', '')
                d = snap_diff(pre, post)
                if d:
                    raise Viol('foreign.archive', f'{tag}:refused_but_changed', d)
                st['probes']['archive_refused_existing'] = 1
            else:
                if exc is not None:
                    raise Viol('foreign.archive', f'{tag}:raises:{type(exc).__name__}', str(exc)[:200])
                d = snap_diff({k: v for k, v in pre.items() if k != os.path.basename(archive_path)},
                              {k: v for k, v in post.items() if k != os.path.basename(archive_path)})
                if d:
                    raise Viol('foreign.archive', f'{tag}:changed_other_entries', d)
        else:
            if exists and not a['overwrite']:
                if exc is None:
                    raise Viol('foreign.create', f'{tag}:existing_path_accepted_without_overwrite', '')
                d = snap_diff(pre, post)
                if d:
                    raise Viol('foreign.create', f'{tag}:refused_but_changed', d)
                st['probes']['create_refused_existing'] = 1
            elif not exists:
                if exc is not None and not (a.get('source_fails') and act in ('asarray', 'create_array', 'asraggedarray')):
                    raise Viol('foreign.create', f'{tag}:raises_on_free_path:{type(exc).__name__}', str(exc)[:200])
            else:
                st['probes']['create_overwrite_on_' + occ] = 1
                if exc is None:
                    # "with overwrite=True they replace ... Darr's own files": whatever the previous occupant was, the
                    # files Darr owns at the target are those the same call writes on a free path of the same name
                    fresh_parent = os.path.join(sb, 'fresh')
                    os.makedirs(fresh_parent)
                    fresh = os.path.join(fresh_parent, 't.darr')
                    self._create(darr, act, a, pathlib.Path(fresh) if form == 'Path' else fresh, src, False, False)
                    fsnap = snapshot(fresh)
                    tsnap = snapshot(target)
                    own = ('arrayvalues.bin', 'arraydescription.json', 'README.txt', 'metadata.json')
                    names = set(own)
                    if act in ('asraggedarray', 'create_raggedarray', 'ragged_copy'):
                        names.update(f'{sub}/{n}' for sub in ('values', 'indices') for n in own[:3])
                    for n in sorted(names):
                        if os.path.join('t.darr', n) in foreign:
                            continue
                        if n in fsnap and n not in tsnap:
                            raise Viol('foreign.overwrite', f'{tag}:own_file_missing:{os.path.basename(n)}', n)
                        if n not in fsnap and n in tsnap and n != 'metadata.json':
                            # files of a previous occupant of the *other* kind (an Array's arrayvalues.bin under a new
                            # ragged array): whether overwrite owes their removal is not stated; counted, not judged
                            st['probes']['cross_kind_leftover_after_overwrite'] = 1
                            continue
                        if n not in fsnap and n in tsnap:
                            raise Viol('foreign.overwrite', f'{tag}:stale_own_file_of_previous_occupant:{os.path.basename(n)}', n)
                        if n in fsnap and fsnap[n][0] == 'file':
                            # data byte for byte, descriptions by meaning; of README.txt only the presence (its text is
                            # C08's subject)
                            same = tsnap[n][0] == 'file'
                            if same and n.endswith('.bin'):
                                same = tsnap[n][2] == fsnap[n][2]
                            elif same and n.endswith('.json'):
                                import json as _json
                                try:
                                    same = _json.loads(tsnap[n][2]) == _json.loads(fsnap[n][2]) or tsnap[n][2] == fsnap[n][2]
                                except ValueError:
                                    same = tsnap[n][2] == fsnap[n][2]
                            if not same:
                                raise Viol('foreign.overwrite', f'{tag}:own_file_differs_from_fresh_creation:{os.path.basename(n)}', n)
                    st['probes']['overwrite_result_equals_fresh_creation'] = 1
            # nothing outside the target may change
            d = snap_diff({k: v for k, v in pre.items() if not k.startswith('t.darr')},
                          {k: v for k, v in post.items() if not k.startswith('t.darr')})
            if d:
                raise Viol('foreign.create', f'{tag}:changed_outside_target', d)
        st['steps'] += 1
        st['transitions'].add(f'{act}|{occ}|{"ow" if a["overwrite"] else "no"}|f{min(nforeign_inside, 2)}|{"exc" if exc else "ok"}')
        emit({'act': act, 'occ': occ, 'exc': type(exc).__name__ if exc else None, 'nf': nforeign_inside})
