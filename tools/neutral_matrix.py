#!/venv/bin/python
"""False-alarm control: apply each behaviour-preserving edit under neutral/ to
a scratch worktree of /repo and run every quick check against it; any
VIOLATION is a false alarm of the machinery (or shows that the edit is not
neutral after all - to be judged by hand).  Writes neutral/MATRIX.json/.md.
Usage: neutral_matrix.py [ids...] [--props=C01,C02] [--runs=N]"""
import json
import os
import shutil
import subprocess
import sys

VERIF = os.path.dirname(os.path.dirname(os.path.abspath(__file__)))
N = os.path.join(VERIF, 'neutral')


def sh(cmd, cwd=None, env=None, timeout=3600):
    e = dict(os.environ)
    if env:
        e.update(env)
    p = subprocess.run(cmd, shell=True, cwd=cwd, env=e, capture_output=True, text=True, timeout=timeout)
    return p.returncode, p.stdout + p.stderr


def main():
    ids = [a for a in sys.argv[1:] if not a.startswith('--')] or \
        sorted(d for d in os.listdir(N) if os.path.isdir(os.path.join(N, d)))
    props = ['C%02d' % i for i in range(1, 21)]
    runs = ''
    for a in sys.argv[1:]:
        if a.startswith('--props='):
            props = a.split('=')[1].split(',')
        if a.startswith('--runs='):
            runs = ' --runs ' + a.split('=')[1]
    mp = os.path.join(N, 'MATRIX.json')
    out = json.load(open(mp)) if os.path.exists(mp) else {}
    for i in ids:
        scratch = f'/dev/shm/neutralrepo-{os.getpid()}'
        shutil.rmtree(scratch, ignore_errors=True)
        sh(f'git -C /repo worktree add -q --detach {scratch} HEAD')
        row = out.get(i, {})
        try:
            rc, o = sh(f'git apply {os.path.join(N, i, "patch.diff")}', cwd=scratch)
            if rc:
                rc, o = sh(f'git apply -3 {os.path.join(N, i, "patch.diff")}', cwd=scratch)
                if rc == 0 and 'with conflicts' in o:
                    rc = 1
            if rc:
                row = {'applies': False, 'detail': o[-300:]}
                out[i] = row
                continue
            row.pop('applies', None)
            row.pop('detail', None)
            rc, o = sh('/venv/bin/python -m pytest -q -p no:cacheprovider --timeout=900 -n 8', cwd=scratch,
                       env={'PYTHONPATH': scratch})
            row['tests'] = o.strip().splitlines()[-1][:120] if o.strip() else ''
            row.setdefault('checks', {})
            for p in props:
                rc, o = sh(f'./check {p} --tier quick --no-evidence{runs}', cwd=VERIF, env={'VERIF_REPO': scratch})
                lines = o.strip().splitlines()
                row['checks'][p] = {'exit': rc,
                                    'violations': [l.strip()[:260] for l in lines if l.strip().startswith('violation:')][:3],
                                    'harness': [l[:200] for l in lines if l.startswith('HARNESS')][:2]}
                print(i, p, rc, row['checks'][p]['violations'][:1], row['checks'][p]['harness'][:1], flush=True)
                out[i] = row
                json.dump(out, open(mp, 'w'), indent=1, sort_keys=True)
        finally:
            sh(f'git -C /repo worktree remove --force {scratch}')
            shutil.rmtree(scratch, ignore_errors=True)
        out[i] = row
        json.dump(out, open(mp, 'w'), indent=1, sort_keys=True)
    with open(os.path.join(N, 'MATRIX.md'), 'w') as f:
        f.write('| neutral edit | tests | checks that stayed quiet | checks that raised an alarm |\n|---|---|---|---|\n')
        for i in sorted(out):
            r = out[i]
            ch = r.get('checks', {})
            quiet = [p for p, v in ch.items() if v['exit'] == 0]
            loud = [f"{p} (exit {v['exit']})" for p, v in ch.items() if v['exit'] != 0]
            f.write(f"| {i} | {r.get('tests', '')} | {len(quiet)} | {', '.join(loud) or '-'} |\n")


if __name__ == '__main__':
    main()
