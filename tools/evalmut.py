#!/venv/bin/python
"""Evaluate a seeded change: apply <patch> to a scratch copy of /repo (never to
/repo itself), confirm the existing tests pass and the demonstration fails
with / passes without the change, then run the given checks against the
copy.  Usage: evalmut.py <patch> <demo.py|-> <P> [<P> ...] [--runs N] [--notests]
"""
import json
import os
import shutil
import subprocess
import sys
import time

VERIF = os.path.dirname(os.path.dirname(os.path.abspath(__file__)))


def sh(cmd, cwd=None, env=None, timeout=1800):
    e = dict(os.environ)
    if env:
        e.update(env)
    p = subprocess.run(cmd, shell=True, cwd=cwd, env=e, capture_output=True, text=True, timeout=timeout)
    return p.returncode, p.stdout + p.stderr


def main():
    args = [a for a in sys.argv[1:] if not a.startswith('--')]
    opts = [a for a in sys.argv[1:] if a.startswith('--')]
    patch, demo, props = os.path.abspath(args[0]), args[1], args[2:]
    runs = None
    for o in opts:
        if o.startswith('--runs='):
            runs = o.split('=')[1]
    scratch = f'/dev/shm/mutrepo-{os.getpid()}'
    shutil.rmtree(scratch, ignore_errors=True)
    out = {'patch': patch, 'props': props}
    try:
        rc, o = sh(f'git -C /repo worktree add -q --detach {scratch} HEAD')
        if rc:
            print(o)
            return 2
        env = {'PYTHONPATH': scratch, 'PYTHONDONTWRITEBYTECODE': '1'}
        if demo != '-':
            # run the demo from inside the scratch tree: sys.path[0] is the script's directory
            shutil.copy(os.path.abspath(demo), os.path.join(scratch, '_demo.py'))
            demo = os.path.join(scratch, '_demo.py')
            rc0, o0 = sh(f'/venv/bin/python -B -W ignore {demo}', cwd=scratch, env=env, timeout=120)
            out['demo_without'] = rc0
        rc, o = sh(f'git apply {patch}', cwd=scratch)
        if rc:
            # the patch was made against an older HEAD: merge it (the blobs named in its index lines are in the repo)
            rc, o = sh(f'git apply -3 {patch}', cwd=scratch)
            out['applied_with_3way_merge'] = (rc == 0)
            if rc == 0 and 'with conflicts' in o:
                rc = 1
        if rc:
            print('PATCH DOES NOT APPLY:', o)
            out['applies'] = False
            print(json.dumps(out))
            return 2
        out['applies'] = True
        if '--notests' not in opts:
            rc, o = sh('/venv/bin/python -m pytest -q -p no:cacheprovider --timeout=900 -n 8 -x', cwd=scratch, env=env)
            out['tests_pass_with_patch'] = (rc == 0)
            out['tests_tail'] = o.strip().splitlines()[-1] if o.strip() else ''
        if demo != '-':
            rc1, o1 = sh(f'/venv/bin/python -B -W ignore {demo}', cwd=scratch, env=env, timeout=120)
            out['demo_with'] = rc1
            out['demo_with_tail'] = o1.strip().splitlines()[-1][:200] if o1.strip() else ''
        out['checks'] = {}
        for p in props:
            t0 = time.time()
            cmd = f'./check {p} --tier quick --no-evidence' + (f' --runs {runs}' if runs else '')
            rc, o = sh(cmd, cwd=VERIF, env={'VERIF_REPO': scratch})
            lines = o.strip().splitlines()
            viol = [l for l in lines if l.startswith('VIOLATION')]
            info = [l.strip()[:300] for l in lines if l.strip().startswith('violation:')]
            out['checks'][p] = {'exit': rc, 'violations': len(viol), 'wall': round(time.time() - t0, 1),
                                'first': info[:2], 'head': lines[0][:200] if lines else '',
                                'harness': [l[:200] for l in lines if l.startswith('HARNESS')][:2]}
    finally:
        sh(f'git -C /repo worktree remove --force {scratch}')
        shutil.rmtree(scratch, ignore_errors=True)
    print(json.dumps(out, indent=1))
    return 0


if __name__ == '__main__':
    sys.exit(main())
