"""Generator-actor scheduler (C19, C14): the 'threads' are iterchunks
generators and open_array() contexts that share one cached memory map of one
Array; the seeded schedule decides who is started, advanced, closed,
abandoned, entered and exited, and when elements are read and written.  Every
schedule runs in its own forked child: death by signal is an observation."""
import gc
import os
import numpy as np

from ..core import Engine, import_darr, HarnessError
from .. import data as D
from ..oracles import leaks, snapshot, snap_digest
from .arrayhist import Viol


def frames_ref(n, chunklen, stepsize, start, end, remainder):
    """Frames as the statement defines them (own reference, not fit_frames)."""
    step = chunklen if stepsize is None else stepsize
    s = 0 if start is None else start
    e = n if end is None else end
    out = []
    k = 0
    while s + k * step + chunklen <= e:
        out.append((s + k * step, s + k * step + chunklen))
        k += 1
    nxt = s + k * step
    last_end = out[-1][1] if out else s
    if remainder and last_end < e and nxt < e:
        out.append((nxt, e))
    return out


class Sched(Engine):
    prop = 'C19'
    oracles = ()
    quick_runs = 3000
    thorough_runs = 60000
    batch = 20
    run_timeout = 60.0
    maxgens = 3
    big = True

    def gen_genparams(self, rng, n):
        c = rng.choice([n // 3, n // 4 + 1, n // 7, n // 2 + 3, n // 5])
        c = max(1, c)
        step = rng.choice([None, None, c, max(1, c // 2), c + max(1, n // 50), 2 * c])
        start = rng.choice([None, None, 0, n // 10, n // 3])
        end = rng.choice([None, None, n, n - n // 10, n // 2 + 1])
        if start is not None and end is not None and start >= end:
            end = None
        return {'chunklen': c, 'stepsize': step, 'start': start, 'end': end, 'rem': rng.random() < 0.7,
                'accessmode': rng.choice([None, None, None, 'r'])}

    def gen_array(self, rng):
        if self.big:
            dtype = rng.choice(['<f4', '<i4', '>i2', '<f8', '<u1', '>c8'])
            trail = rng.choice([[], [], [4], [2, 2]])
            rowbytes = np.dtype(dtype).itemsize * int(np.prod(trail or [1]))
            rows = rng.choice([4, 5, 6, 8]) * 2 ** 20 // rowbytes + rng.randint(0, 9)
        else:
            dtype = D.pick_dtype(rng)
            trail = rng.choice([[], [], [3], [2, 2]])
            rows = rng.randint(1, 40)
        return {'rows': rows, 'trail': trail, 'dtype': dtype, 'vseed': rng.getrandbits(32),
                'mode': 'r' if rng.random() < 0.3 else 'r+'}

    def gen_idx(self, rng, n):
        if rng.random() < 0.5:
            return {'k': 'int', 'i': rng.randrange(n)}
        a = rng.randrange(n)
        return {'k': 'slice', 'a': a, 'b': min(n, a + rng.choice([1, 7, 4096, n // 8]))}

    def gen(self, rng, i, tier):
        arr = self.gen_array(rng)
        n = arr['rows']
        deep = tier == 'thorough' and rng.random() < 0.5       # thorough tier: longer schedules, a fourth generator
        ngen = rng.randint(1, self.maxgens + (1 if deep else 0))
        gens = [self.gen_genparams(rng, n) for _ in range(ngen)]
        acts = []
        # swarm: per-run action weights
        w = {'start': 4, 'advance': 8, 'close': 1.5, 'abandon': 1.5, 'enter': 2, 'exit': 2, 'read': 3, 'write': 3,
             'read_openfail': 0.8}
        for k in list(w):
            if rng.random() < 0.2:
                w[k] = 0
        if not (w['start'] or w['enter']):
            w['start'] = 4
        names = [k for k in w if w[k]]
        for _ in range(rng.randint(3, 24 if deep else 14)):
            a = rng.choices(names, [w[x] for x in names])[0]
            if a in ('start', 'advance', 'close', 'abandon'):
                acts.append({'act': a, 'g': rng.randrange(ngen)})
            elif a in ('enter', 'exit'):
                acts.append({'act': a, 'accessmode': rng.choice([None, None, None, 'r', 'r+'])} if a == 'enter' else {'act': a})
            elif a == 'read':
                acts.append({'act': 'read', 'idx': self.gen_idx(rng, n)})
            elif a == 'read_openfail':
                acts.append({'act': 'read_openfail', 'idx': self.gen_idx(rng, n), 'errno': rng.choice([24, 13, 5])})
            else:
                acts.append({'act': 'write', 'idx': self.gen_idx(rng, n), 'v': rng.randint(0, 100)})
        # finishing order of the survivors: a seeded permutation of actors with a way of finishing
        fin = [{'who': f'g{g}', 'how': rng.choice(['exhaust', 'exhaust', 'close', 'abandon'])} for g in range(ngen)]
        fin += [{'who': 'ctx'}, {'who': 'ctx'}]
        rng.shuffle(fin)
        return {'engine': type(self).__name__, 'prop': self.prop, 'array': arr, 'gens': gens, 'ops': acts, 'finish': fin}

    def simplify(self, sc):
        import copy
        if len(sc['gens']) > 1:
            # drop the last generator if unused
            used = {o.get('g') for o in sc['ops'] if 'g' in o}
            last = len(sc['gens']) - 1
            if last not in used:
                c = copy.deepcopy(sc)
                c['gens'] = c['gens'][:-1]
                c['finish'] = [f for f in c['finish'] if f['who'] != f'g{last}']
                yield c
        for j, f in enumerate(sc['finish']):
            c = copy.deepcopy(sc)
            del c['finish'][j]
            yield c
        for j, f in enumerate(sc['finish']):
            if f.get('how') in ('close', 'abandon'):
                c = copy.deepcopy(sc)
                c['finish'][j]['how'] = 'exhaust'
                yield c
        if sc['array']['trail']:
            c = copy.deepcopy(sc)
            c['array']['trail'] = []
            yield c
        for j, g in enumerate(sc['gens']):
            for key, val in (('stepsize', None), ('start', None), ('end', None), ('rem', True)):
                if g[key] != val:
                    c = copy.deepcopy(sc)
                    c['gens'][j][key] = val
                    yield c

    def judge_death(self, scenario, events, sig, code):
        import signal as _sg
        if sig not in (_sg.SIGSEGV, _sg.SIGBUS, _sg.SIGABRT, _sg.SIGILL, _sg.SIGFPE):
            return None       # killed from outside (OOM killer, operator), or a plain exit: the run proves nothing
        begun = [e for e in events if e.get('begin')]
        last = begun[-1] if begun else {}
        what = f'signal:{sig}' if sig is not None else f'exit:{code}'
        return {'oracle': 'sched.crash', 'signature': what, 'op_index': last.get('k'),
                'op': last.get('act'), 'detail': f'interpreter died during {last}'}

    def judge_timeout(self, scenario, events):
        return None

    def features(self, sc, v):
        return []

    def rule(self):
        return ('seeded schedule of <= 14 actions {start/advance/close/abandon generator g of up to 3 iterchunks generators '
                'with different chunk parameters, enter/exit up to 2 nested open_array() contexts, read, write} on one '
                'Array of 4-8 MB, followed by a seeded order of finishing the survivors; one forked child per schedule; '
                'non-trivial = at least two actors were live at the same time; distinct = distinct scenario digests')

    def nontrivial(self, scenario, stats):
        return (stats.get('probes') or {}).get('two_actors_live', 0) >= 1

    def run(self, scenario, sandbox, emit):
        darr = import_darr()
        st = _SState(self, darr, sandbox, emit, scenario)
        viol = None
        try:
            st.execute()
        except Viol as v:
            viol = {'oracle': v.oracle, 'signature': v.signature, 'op_index': st.k, 'op': st.cur, 'detail': v.detail}
            emit({'k': st.k, 'violation': v.oracle + ':' + v.signature})
        return {'violation': viol, 'stats': st.stats()}


class _SState:
    def __init__(self, eng, darr, sb, emit, sc):
        self.eng, self.darr, self.sb, self.emit, self.sc = eng, darr, sb, emit, sc
        self.path = os.path.join(sb, 'a.darr')
        self.k = -1
        self.cur = None
        self.probes = {}
        self.transitions = set()
        self.patterns = set()
        self.steps = 0
        self.gens = {}        # g -> generator object
        self.gpos = {}        # g -> index of next frame
        self.gframes = {}
        self.gdone = set()
        self.ctx = []
        self.opener = None    # actor that opened the shared map when nobody else was live

    def probe(self, n):
        self.probes[n] = self.probes.get(n, 0) + 1

    def stats(self):
        return {'steps': self.steps, 'probes': self.probes, 'faults': getattr(self, 'faults', {}),
                'transitions': sorted(self.transitions), 'extra': {'ownership_patterns': sorted(self.patterns)}}

    def live(self):
        return [f'g{g}' for g in self.gens] + [f'c{i}' for i in range(len(self.ctx))]

    def note_open(self, who, accessmode=None):
        if not self.live():
            self.opener = who
            self.map_mode = accessmode or self.mode      # the first opener's mode is the mode of the shared map
        elif (accessmode or self.mode) != self.map_mode:
            self.probe('actor_joined_with_another_accessmode')

    def note_finish(self, who):
        others = [x for x in self.live() if x != who]
        if others:
            if self.opener == who:
                self.probe('first_opener_finished_while_others_live')
                self.patterns.add(f'opener={who[0]};finished_first;others={"".join(sorted(x[0] for x in others))}')
                self.opener = '<gone>'
            else:
                self.patterns.add(f'nonopener={who[0]};finished;others={"".join(sorted(x[0] for x in others))}')
        else:
            self.opener = None

    def resolve(self, ix):
        if ix['k'] == 'int':
            return ix['i'] % self.n
        a = ix['a'] % self.n
        return slice(a, max(a + 1, min(self.n, ix['b'])))

    def check_chunk(self, got, s, e, what):
        exp = self.model[s:e]
        if not isinstance(got, np.ndarray):
            raise Viol('sched.value', f'{what}:type:{type(got).__name__}', '')
        ok, why = D.arr_equal(got, exp)
        if not ok:
            raise Viol('sched.value', f'{what}:{why.split(" ")[0]}', f'frame=({s},{e}) {why}')

    def advance(self, g):
        gen = self.gens[g]
        fr = self.gframes[g]
        pos = self.gpos[g]
        try:
            got = next(gen)
        except StopIteration:
            if pos < len(fr):
                raise Viol('sched.frames', 'ended_early', f'g{g} at {pos} of {len(fr)}')
            self.finish_gen(g)
            return 'stop'
        except Exception as e:
            raise Viol('sched.advance', f'raises:{type(e).__name__}', str(e)[:200])
        if pos >= len(fr):
            raise Viol('sched.frames', 'extra_frame', f'g{g} yielded more than {len(fr)} frames')
        s, e = fr[pos]
        self.check_chunk(got, s, e, 'chunk')
        self.held.append((got, self.model[s:e].copy()))
        self.gpos[g] = pos + 1
        return 'chunk'

    def finish_gen(self, g):
        self.note_finish(f'g{g}')
        del self.gens[g]
        self.gdone.add(g)

    def do(self, a):
        act = a['act']
        A = self.a
        if act == 'start':
            g = a['g'] % len(self.sc['gens'])
            if g in self.gens or g in self.gdone:
                return 'skip'
            p = self.sc['gens'][g]
            self.note_open(f'g{g}', p.get('accessmode'))
            if len(self.live()) >= 1:
                self.probe('two_actors_live')
            self.gens[g] = A.iterchunks(p['chunklen'], stepsize=p['stepsize'], startindex=p['start'],
                                        endindex=p['end'], include_remainder=p['rem'], accessmode=p.get('accessmode'))
            self.gpos[g] = 0
            return 'start:' + self.advance(g)
        if act == 'advance':
            g = a['g'] % len(self.sc['gens'])
            if g not in self.gens:
                return 'skip'
            return self.advance(g)
        if act == 'close':
            g = a['g'] % len(self.sc['gens'])
            if g not in self.gens:
                return 'skip'
            self.gens[g].close()
            self.finish_gen(g)
            return 'closed'
        if act == 'abandon':
            g = a['g'] % len(self.sc['gens'])
            if g not in self.gens:
                return 'skip'
            self.note_finish(f'g{g}')
            del self.gens[g]
            self.gdone.add(g)
            gc.collect()
            return 'abandoned'
        if act == 'enter':
            if len(self.ctx) >= 2:
                return 'skip'
            self.note_open(f'c{len(self.ctx)}', a.get('accessmode'))
            if len(self.live()) >= 1:
                self.probe('two_actors_live')
            cm = A.open_array(accessmode=a.get('accessmode'))
            cm.__enter__()
            self.ctx.append(cm)
            return 'entered'
        if act == 'exit':
            if not self.ctx:
                return 'skip'
            who = f'c{len(self.ctx) - 1}'
            cm = self.ctx.pop()
            # note_finish must see the state without this context
            others = self.live()
            self.ctx.append(cm)
            self.ctx.pop()
            if others:
                if self.opener == who:
                    self.probe('first_opener_finished_while_others_live')
                    self.patterns.add(f'opener=c;finished_first;others={"".join(sorted(x[0] for x in others))}')
                    self.opener = '<gone>'
                else:
                    self.patterns.add(f'nonopener=c;finished;others={"".join(sorted(x[0] for x in others))}')
            else:
                self.opener = None
            cm.__exit__(None, None, None)
            return 'exited'
        if act == 'read':
            idx = self.resolve(a['idx'])
            try:
                got = A[idx]
            except Exception as e:
                raise Viol('sched.read', f'raises:{type(e).__name__}', str(e)[:200])
            exp = self.model[idx]
            ok, why = D.arr_equal(got, exp)
            if not ok:
                raise Viol('sched.value', f'read:{why.split(" ")[0]}', why)
            if self.live():
                self.probe('read_while_actor_live')
            return 'read'
        if act == 'read_openfail':
            # fault: the data file cannot be opened for this one access (EMFILE / EACCES / EIO).  Only an access
            # that has to open the map can fail; the access may raise, nothing else may be disturbed.
            if self.live():
                return 'skip_map_already_open'
            import builtins
            import io
            idx = self.resolve(a['idx'])
            datafile = os.path.realpath(os.path.join(self.path, 'arrayvalues.bin'))
            fired = []
            real_open = builtins.open

            def faulty_open(file=None, *args, **kw):
                try:
                    hit = not fired and not isinstance(file, int) and os.path.realpath(os.fspath(file)) == datafile
                except Exception:
                    hit = False
                if hit:
                    fired.append(1)
                    raise OSError(a['errno'], 'injected failure to open the data file')
                return real_open(file, *args, **kw)
            # the seam is the interpreter's open() itself (builtins.open, io.open = what pathlib uses): whatever module
            # of Darr opens the data file, and however, during this one access
            builtins.open = faulty_open
            io.open = faulty_open
            try:
                try:
                    A[idx]
                    out = 'read_ok_fault_not_reached'
                except Exception:        # the refusal may be passed on as OSError or wrapped in a class of Darr's own
                    out = 'read_failed' if fired else None
                    if out is None:
                        raise
            finally:
                builtins.open = real_open
                io.open = real_open
            if fired:
                self.probe('open_fault_fired')
                self.faults = getattr(self, 'faults', {})
                self.faults['open_fails'] = self.faults.get('open_fails', 0) + 1
            return out
        if act == 'write':
            if self.mode == 'r':
                return 'skip_readonly'
            idx = self.resolve(a['idx'])
            v = a['v']
            readonly_map = bool(self.live()) and getattr(self, 'map_mode', self.mode) == 'r'
            try:
                A[idx] = v
            except Exception as e:
                if readonly_map:     # whatever its class (C19 names none)
                    # the shared map was opened read-only by the actor that is still using it: a refused write
                    # is not a lost write
                    self.probe('write_refused_while_map_is_readonly')
                    return 'write_refused'
                raise Viol('sched.write', f'raises:{type(e).__name__}', str(e)[:200])
            self.model[idx] = v
            self.nwrites += 1
            if self.live():
                self.probe('write_while_actor_live')
            return 'write'
        raise HarnessError(act)

    def execute(self):
        sc = self.sc
        arr = sc['array']
        dtype = np.dtype(arr['dtype'])
        shape = (arr['rows'],) + tuple(arr['trail'])
        self.model = D.rand_bits(shape, dtype, arr['vseed'])
        self.n = arr['rows']
        self.mode = arr.get('mode', 'r+')
        self.a = self.darr.asarray(self.path, self.model, accessmode=self.mode)
        if self.mode == 'r':
            self.probe('read_only_handle')
        self.held = []
        self.nwrites = 0
        for g, p in enumerate(sc['gens']):
            self.gframes[g] = frames_ref(self.n, p['chunklen'], p['stepsize'], p['start'], p['end'], p['rem'])
        k = 0
        for a in sc['ops']:
            self.k, self.cur = k, a['act']
            self.emit({'k': k, 'act': a['act'], 'g': a.get('g'), 'begin': 1})
            out = self.do(a)
            self.steps += 1
            self.transitions.add(f'{len(self.gens)}g{len(self.ctx)}c|{a["act"]}|{out}')
            self.emit({'k': k, 'out': out, 'live': self.live()})
            k += 1
        # finishing order of the survivors
        for f in sc['finish']:
            self.k = k
            who = f['who']
            if who == 'ctx':
                if not self.ctx:
                    continue
                self.cur = 'finish:exit'
                self.emit({'k': k, 'act': 'finish:exit', 'begin': 1})
                self.do({'act': 'exit'})
            else:
                g = int(who[1:])
                if g not in self.gens:
                    continue
                how = f.get('how', 'exhaust')
                self.cur = 'finish:' + how
                self.emit({'k': k, 'act': 'finish:' + how, 'g': g, 'begin': 1})
                if how == 'exhaust':
                    guard = 0
                    while g in self.gens:
                        self.advance(g)
                        guard += 1
                        if guard > 10000:
                            raise Viol('sched.frames', 'does_not_terminate', f'g{g}')
                else:
                    self.do({'act': how, 'g': g})
            self.steps += 1
            self.emit({'k': k, 'out': 'finished', 'live': self.live()})
            k += 1
        # whatever the finish list did not name is finished now (shrunk scenarios)
        self.k, self.cur = k, 'finish:rest'
        self.emit({'k': k, 'act': 'finish:rest', 'begin': 1})
        while self.ctx:
            self.do({'act': 'exit'})
        for g in list(self.gens):
            self.do({'act': 'close', 'g': g})
        gc.collect()
        # held chunks stay valid and unchanged
        for got, exp in self.held:
            if not D.arr_equal(got, exp)[0]:
                raise Viol('sched.held', 'chunk_changed_after_return', '')
        lk = leaks(self.path)
        if lk:
            raise Viol('sched.leak', lk[0][0], str(lk[:4]))
        try:
            fresh = self.darr.Array(self.path)[:]
        except Exception as e:
            raise Viol('sched.fresh', f'raises:{type(e).__name__}', str(e)[:200])
        if not D.arr_equal(fresh, self.model)[0]:
            raise Viol('sched.write_lost', 'fresh_handle', f'writes={self.nwrites}')
        with open(os.path.join(self.path, 'arrayvalues.bin'), 'rb') as f:
            raw = f.read()
        if raw != np.ascontiguousarray(self.model).tobytes():
            raise Viol('sched.write_lost', 'raw_file', f'writes={self.nwrites}')
        self.emit({'k': k, 'out': 'end', 'writes': self.nwrites, 'held': len(self.held)})


# =============================================================================
# C14: frames arithmetic (saturated small space) + single-generator lifetimes
# =============================================================================

def fit_ref(total, chunklen, steplen):
    step = chunklen if steplen is None else steplen
    fr = frames_ref(total, chunklen, step, 0, total, False)
    count = len(fr)
    covered = (fr[-1][1] - 0) if fr else 0
    return count, covered, total - covered


class Frames(Engine):
    prop = 'C14'
    quick_runs = 1200
    thorough_runs = 30000
    batch = 10
    NMAX = 12

    def gen(self, rng, i, tier):
        # the first runs of every batch enumerate the small space completely
        if i < self.NMAX:
            return {'engine': 'Frames', 'prop': 'C14', 'kind': 'enum_indices', 'n': i + 1, 'ops': []}
        if i < self.NMAX + 2:
            return {'engine': 'Frames', 'prop': 'C14', 'kind': 'enum_fit', 'half': i - self.NMAX, 'ops': []}
        r = rng.random()
        if r < 0.55:
            n = rng.randint(1, 40)
            c = rng.randint(1, n + 2)
            p = {'chunklen': c, 'stepsize': rng.choice([None, None, c, rng.randint(1, n + 2)]),
                 'start': rng.choice([None, None, rng.randrange(n)]), 'end': None, 'rem': rng.random() < 0.7}
            s = p['start'] or 0
            p['end'] = rng.choice([None, None, rng.randint(s + 1, n)])
            ops = []
            for _ in range(rng.randint(1, 12)):
                a = rng.choice(['advance', 'advance', 'advance', 'write', 'write', 'read'])
                if a == 'advance':
                    ops.append({'act': 'advance'})
                elif a == 'write':
                    ops.append({'act': 'write', 'i': rng.randrange(n), 'v': rng.randint(0, 100)})
                else:
                    ops.append({'act': 'read', 'i': rng.randrange(n)})
            return {'engine': 'Frames', 'prop': 'C14', 'kind': 'chunks', 'n': n,
                    'trail': rng.choice([[], [], [3], [2, 2]]), 'dtype': D.pick_dtype(rng), 'vseed': rng.getrandbits(32),
                    'p': p, 'ops': ops, 'finish': rng.choice(['exhaust', 'exhaust', 'close', 'abandon']),
                    'mode': 'r' if rng.random() < 0.3 else 'r+'}
        if r < 0.8:
            n = rng.randint(1, 30)
            bad = rng.choice(['chunklen0', 'chunklen_neg', 'step0', 'step_neg', 'end_gt_n', 'start_ge_end', 'start_eq_end',
                              'start_neg', 'step0_bigchunk', 'step_neg_bigchunk'])
            return {'engine': 'Frames', 'prop': 'C14', 'kind': 'invalid', 'n': n, 'bad': bad,
                    'c': rng.randint(1, n + 2), 'st': rng.choice([None, rng.randint(1, n + 1)]), 'r': rng.randint(0, 10 ** 6),
                    'rem': rng.random() < 0.5, 'ops': []}
        if r < 0.9:
            return {'engine': 'Frames', 'prop': 'C14', 'kind': 'fit_misc', 'r': [rng.randint(0, 10 ** 9) for _ in range(6)],
                    'ops': []}
        n = rng.randint(10 ** 4, 3 * 10 ** 6)
        c = rng.choice([rng.randint(1, n), rng.randint(1, 1000), n, n + 1])
        return {'engine': 'Frames', 'prop': 'C14', 'kind': 'large', 'n': n,
                'p': {'chunklen': c, 'stepsize': rng.choice([None, rng.randint(1, n), rng.randint(1, 1000)]),
                      'start': rng.choice([None, rng.randrange(n)]), 'end': None, 'rem': rng.random() < 0.5}, 'ops': []}

    def simplify(self, sc):
        import copy
        if sc['kind'] == 'chunks':
            p = sc['p']
            for key, val in (('stepsize', None), ('start', None), ('end', None), ('rem', True)):
                if p[key] != val:
                    c = copy.deepcopy(sc)
                    c['p'][key] = val
                    yield c
            if sc['trail']:
                yield dict(copy.deepcopy(sc), trail=[])
            if sc['dtype'] != '<f8':
                yield dict(copy.deepcopy(sc), dtype='<f8')
            if sc['finish'] != 'exhaust':
                yield dict(copy.deepcopy(sc), finish='exhaust')

    def features(self, sc, v):
        return ['kind=' + sc['kind']] + (['bad=' + sc['bad']] if 'bad' in sc else [])

    def rule(self):
        return ('runs 0-11 enumerate iterindices/iterchunks frames for every (chunklen, stepsize, start, end, remainder) with '
                'n = run index + 1 <= 12 (chunklen, step in 1..n+2 and None; all 0 <= start < end <= n and None); runs 12-13 '
                'enumerate fit_frames for totallen <= 16; further runs are seeded: single-generator schedules with writes '
                'between next() calls and early close/abandon, invalid parameter combinations, integral/non-integral floats, '
                'large values; non-trivial = at least one frame or one rejected combination was checked')

    def nontrivial(self, scenario, stats):
        return stats.get('steps', 0) >= 1

    def run(self, scenario, sandbox, emit):
        darr = import_darr()
        st = {'steps': 0, 'probes': {}, 'faults': {}, 'transitions': set(), 'extra': {}}
        viol = None
        try:
            getattr(self, 'run_' + scenario['kind'])(darr, scenario, sandbox, emit, st)
        except Viol as v:
            viol = {'oracle': v.oracle, 'signature': v.signature, 'op_index': None, 'op': scenario['kind'], 'detail': v.detail}
            emit({'violation': v.oracle + ':' + v.signature})
        st['transitions'] = sorted(st['transitions'])
        return {'violation': viol, 'stats': st}

    # -- exhaustive small space
    def run_enum_indices(self, darr, sc, sb, emit, st):
        n = sc['n']
        model = np.arange(n, dtype='<i4') * 3 + 1
        a = darr.asarray(os.path.join(sb, 'a.darr'), model, accessmode='r+')
        count = 0
        import hashlib
        h = hashlib.sha256()
        for c in range(1, n + 3):
            for step in [None] + list(range(1, n + 3)):
                for s in [None] + list(range(0, n)):
                    for e in [None] + list(range((s or 0) + 1, n + 1)):
                        for rem in (True, False):
                            exp = frames_ref(n, c, step, s, e, rem)
                            try:
                                got = list(a.iterindices(c, stepsize=step, startindex=s, endindex=e, include_remainder=rem))
                            except Exception as ex:
                                raise Viol('frames.iterindices', f'raises:{type(ex).__name__}',
                                           f'n={n} chunklen={c} step={step} start={s} end={e} rem={rem}')
                            if [tuple(map(int, f)) for f in got] != exp:
                                cls = 'remainder' if got[:-1] == exp or exp[:-1] == got or (got and exp and got[:-1] == exp[:-1]) else 'full_frames'
                                raise Viol('frames.iterindices', f'wrong_frames:{cls}',
                                           f'n={n} chunklen={c} step={step} start={s} end={e} rem={rem}: {got} != {exp}')
                            count += 1
                            h.update(repr(exp).encode())
                            # iterchunks for a slice of the space (it opens the file): same frames, same data
                            if (c + (step or 0) + (s or 0) + (e or 0)) % 7 == 0:
                                chunks = list(a.iterchunks(c, stepsize=step, startindex=s, endindex=e, include_remainder=rem))
                                if len(chunks) != len(exp) or any(not D.arr_equal(ch, model[f0:f1])[0]
                                                                  for ch, (f0, f1) in zip(chunks, exp)):
                                    raise Viol('frames.iterchunks', 'wrong_chunks',
                                               f'n={n} chunklen={c} step={step} start={s} end={e} rem={rem}')
                                if (step is None or step == c) and rem and chunks:
                                    cat = np.concatenate(chunks).astype(model.dtype, copy=False)
                                    if not D.arr_equal(cat, model[(s or 0):(n if e is None else e)])[0]:
                                        raise Viol('frames.iterchunks', 'concatenation_differs',
                                                   f'n={n} chunklen={c} start={s} end={e}')
        st['steps'] = count
        st['extra']['enumerated_parameter_combinations'] = count
        st['transitions'].add(f'enum_indices|n={n}')
        st['probes'][f'enum_complete_n={n}'] = 1
        emit({'kind': 'enum_indices', 'n': n, 'count': count, 'h': h.hexdigest()[:12]})
        if leaks(sb):
            st['probes']['descriptor_or_map_open_after_enumeration'] = 1      # C14 has no leak clause (C12/C19 do)

    def run_enum_fit(self, darr, sc, sb, emit, st):
        from darr.utils import fit_frames
        count = 0
        lo, hi = (0, 9) if sc['half'] == 0 else (9, 17)
        for total in range(lo, hi):
            for c in range(1, 19):
                for step in [None] + list(range(1, 19)):
                    for asfloat in (False, True):
                        args = (float(total), float(c), None if step is None else float(step)) if asfloat else (total, c, step)
                        exp = fit_ref(total, c, step)
                        try:
                            got = fit_frames(*args)
                        except Exception as ex:
                            raise Viol('frames.fit_frames', f'raises:{type(ex).__name__}', f'{args}')
                        if tuple(got) != exp:
                            raise Viol('frames.fit_frames', 'wrong_triple', f'{args}: {tuple(got)} != {exp}')
                        count += 1
        st['steps'] = count
        st['extra']['enumerated_fit_frames_arguments'] = count
        st['probes'][f'enum_fit_complete_{sc["half"]}'] = 1
        emit({'kind': 'enum_fit', 'count': count})

    def run_fit_misc(self, darr, sc, sb, emit, st):
        from darr.utils import fit_frames
        r = sc['r']
        total, c, step = r[0] % 10 ** 7, r[1] % 10 ** 5 + 1, [None, r[2] % 10 ** 5 + 1][r[3] % 2]
        exp = fit_ref_fast(total, c, step)
        got = tuple(fit_frames(total, c, step))
        if got != exp:
            raise Viol('frames.fit_frames', 'wrong_triple_large', f'{(total, c, step)}: {got} != {exp}')
        # non-integral floats: whether they count as "outside these ranges" is not stated - called, recorded, not judged
        for b in ((total + 0.5, c, step), (total, c + 0.25, step), (max(total, c), c, 1.5)):
            try:
                fit_frames(*b)
                st['probes']['fit_frames_nonintegral_float_accepted'] = 1
            except Exception:
                st['probes']['fit_frames_nonintegral_float_refused'] = 1
        bads = [(total, 0, step), (total, -c, step), (-1 - total, c, step),
                (max(total, c), c, 0), (max(total, c), c, -3), (total, c + total, -1), (total, c + total, 0)]
        for k, b in enumerate(bads):
            try:
                out = fit_frames(*b)
            except ValueError:
                st['steps'] += 1
                continue
            except Exception as ex:
                raise Viol('frames.fit_frames', f'invalid_wrong_class:{type(ex).__name__}:case{k}', f'{b}')
            raise Viol('frames.fit_frames', f'invalid_accepted:case{k}', f'{b} -> {out}')
        st['steps'] += 1
        emit({'kind': 'fit_misc', 'ok': 1})

    def run_invalid(self, darr, sc, sb, emit, st):
        n = sc['n']
        a = darr.asarray(os.path.join(sb, 'a.darr'), np.arange(n, dtype='<f8'), accessmode='r+')
        c, step, s, e = sc['c'], sc['st'], None, None
        bad = sc['bad']
        r = sc['r']
        if bad == 'chunklen0':
            c = 0
        elif bad == 'chunklen_neg':
            c = -(r % 5) - 1
        elif bad == 'step0':
            c, step = min(c, n), 0
        elif bad == 'step_neg':
            c, step = min(c, n), -(r % 5) - 1
        elif bad == 'step0_bigchunk':
            c, step = n + 1 + r % 3, 0
        elif bad == 'step_neg_bigchunk':
            c, step = n + 1 + r % 3, -(r % 5) - 1
        elif bad == 'end_gt_n':
            e = n + 1 + r % 4
        elif bad == 'start_ge_end':
            e = r % n + 1
            s = e + r % 3
        elif bad == 'start_eq_end':
            s = e = r % n + 1
        elif bad == 'start_neg':
            s = -(r % n) - 1
        for name, f in (('iterindices', lambda: list(a.iterindices(c, stepsize=step, startindex=s, endindex=e, include_remainder=sc['rem']))),
                        ('iterchunks', lambda: list(a.iterchunks(c, stepsize=step, startindex=s, endindex=e, include_remainder=sc['rem'])))):
            try:
                out = f()
            except ValueError:
                st['steps'] += 1
                continue
            except Exception as ex:
                raise Viol('frames.invalid', f'{bad}:{name}:wrong_class:{type(ex).__name__}',
                           f'n={n} chunklen={c} step={step} start={s} end={e}: {str(ex)[:100]}')
            raise Viol('frames.invalid', f'{bad}:{name}:accepted', f'n={n} chunklen={c} step={step} start={s} end={e} -> {len(out)} frames')
        st['probes']['invalid:' + bad] = 1
        st['transitions'].add('invalid|' + bad)
        if leaks(sb):
            st['probes']['descriptor_or_map_open_after_rejected_parameters'] = 1
        emit({'kind': 'invalid', 'bad': bad})

    def run_large(self, darr, sc, sb, emit, st):
        n = sc['n']
        a = darr.create_array(os.path.join(sb, 'a.darr'), shape=(n,), dtype='uint8', fill=1, chunklen=2 ** 20)
        p = sc['p']
        c, step, s = p['chunklen'], p['stepsize'], p['start']
        stp = c if step is None else step
        s0 = s or 0
        nfull = 0 if c > n - s0 else (n - s0 - c) // stp + 1
        if nfull > 20000:
            c = max(c, (n - s0) // 5000)
            stp = max(stp, (n - s0) // 5000) if step is not None else c
            step = None if step is None else stp
        exp = frames_ref(n, c, step, s, None, p['rem'])
        got = [tuple(map(int, f)) for f in a.iterindices(c, stepsize=step, startindex=s, include_remainder=p['rem'])]
        if got != exp:
            raise Viol('frames.iterindices', 'wrong_frames_large', f'n={n} chunklen={c} step={step} start={s}')
        st['steps'] += len(exp) + 1
        st['probes']['large'] = 1
        emit({'kind': 'large', 'frames': len(exp)})

    # -- single generator lifetime with interleaved writes
    def run_chunks(self, darr, sc, sb, emit, st):
        n = sc['n']
        dtype = np.dtype(sc['dtype'])
        model = D.rand_bits((n,) + tuple(sc['trail']), dtype, sc['vseed'])
        path = os.path.join(sb, 'a.darr')
        mode = sc.get('mode', 'r+')
        a = darr.asarray(path, model, accessmode=mode)
        if mode == 'r':
            st['probes']['read_only_handle'] = 1
        p = sc['p']
        s, e = p['start'], p['end']
        if e is not None and e <= (s or 0):
            e = None
        exp = frames_ref(n, p['chunklen'], p['stepsize'], s, e, p['rem'])
        gen = a.iterchunks(p['chunklen'], stepsize=p['stepsize'], startindex=s, endindex=e, include_remainder=p['rem'])
        held = []
        pos = 0
        done = False
        wrote = False

        def adv():
            nonlocal pos, done
            try:
                got = next(gen)
            except StopIteration:
                if pos < len(exp):
                    raise Viol('frames.iterchunks', 'ended_early', f'{pos} of {len(exp)}')
                done = True
                return
            if pos >= len(exp):
                raise Viol('frames.iterchunks', 'extra_frame', f'more than {len(exp)}')
            f0, f1 = exp[pos]
            if not isinstance(got, np.ndarray):
                raise Viol('frames.iterchunks', f'type:{type(got).__name__}', '')
            ok, why = D.arr_equal(got, model[f0:f1])
            if not ok:
                raise Viol('frames.iterchunks', 'chunk_differs_from_slice_at_that_moment:' + why.split(' ')[0], f'frame={exp[pos]} {why}')
            held.append((got, model[f0:f1].copy()))
            pos += 1
        for k, op in enumerate(sc['ops']):
            if op['act'] == 'advance':
                if not done:
                    adv()
            elif op['act'] == 'write':
                i = op['i'] % n
                if mode == 'r':      # the write goes through another, writable handle on the same directory
                    w = darr.Array(path, accessmode='r+')
                    w[i] = op['v']
                    del w
                else:
                    a[i] = op['v']
                model[i] = op['v']
                wrote = True
            else:
                i = op['i'] % n
                if not D.arr_equal(a[i], model[i])[0]:
                    # element reads between iteration steps are C19's/C12's subject: the history ends here
                    st['probes']['element_read_differs_history_ended'] = 1
                    return
            st['steps'] += 1
            emit({'k': k, 'act': op['act'], 'pos': pos, 'm': D.arr_digest(model)})
        fin = sc['finish']
        if not done:
            if fin == 'exhaust':
                while not done:
                    adv()
                st['probes']['exhausted'] = 1
            elif fin == 'close':
                gen.close()
                st['probes']['closed_early'] = 1
            else:
                del gen
                gc.collect()
                st['probes']['abandoned_early'] = 1
        gen = None
        gc.collect()
        for got, want in held:
            if not D.arr_equal(got, want)[0]:
                raise Viol('frames.held', 'chunk_changed_after_later_write', '')
        if wrote and held:
            st['probes']['held_chunk_survived_later_write'] = 1
        if pos == len(exp) and (p['stepsize'] is None or p['stepsize'] == p['chunklen']) and p['rem'] and not wrote and held:
            cat = np.concatenate([g for g, _ in held]).astype(model.dtype, copy=False)
            if not D.arr_equal(cat, model[(s or 0):(n if e is None else e)])[0]:
                raise Viol('frames.iterchunks', 'concatenation_differs', '')
            st['probes']['concatenation_checked'] = 1
        if leaks(path):
            st['probes'][f'descriptor_or_map_open_after_{fin}'] = 1       # C14 has no leak clause (C12/C19 do)
        if not D.arr_equal(darr.Array(path)[:], model)[0]:
            st['probes']['write_between_steps_not_on_disk'] = 1           # C19's subject
        st['transitions'].add(f'chunks|{fin}|frames{min(len(exp), 6)}|pos{min(pos, 6)}|{"w" if wrote else "-"}')
        emit({'kind': 'chunks', 'frames': len(exp), 'pos': pos, 'fin': fin})


def fit_ref_fast(total, chunklen, steplen):
    """closed form of fit_ref for large values, derived from the statement: frames k >= 0 with k*step + chunklen <= total"""
    step = chunklen if steplen is None else steplen
    if chunklen > total:
        return 0, 0, total
    count = (total - chunklen) // step + 1
    covered = (count - 1) * step + chunklen
    return count, covered, total - covered
