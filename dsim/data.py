"""Value specs: small JSON records that deterministically denote NumPy data.

Nothing here draws at execution time: the generator stores `vseed` in the spec
and build() derives the values from it.
"""
import numpy as np

NUMTYPES = ['int8', 'int16', 'int32', 'int64', 'uint8', 'uint16', 'uint32', 'uint64',
            'float16', 'float32', 'float64', 'complex64', 'complex128']
_CODE = {'int8': 'i1', 'int16': 'i2', 'int32': 'i4', 'int64': 'i8',
         'uint8': 'u1', 'uint16': 'u2', 'uint32': 'u4', 'uint64': 'u8',
         'float16': 'f2', 'float32': 'f4', 'float64': 'f8',
         'complex64': 'c8', 'complex128': 'c16'}
ALL_DTYPES = [bo + c for c in _CODE.values() for bo in '<>']   # 26 dtype strings
LAYOUTS = ['C', 'F', 'strided', 'negstride', 'T', 'bcast']
INDEXTYPES = ['int8', 'uint8', 'int16', 'uint16', 'int32', 'uint32', 'int64']


def dt(s):
    """dtype from a 2-3 char string like '<f4'; 1-byte types keep '|'."""
    return np.dtype(s)


def dtstr(dtype):
    """Canonical string incl. byte order; 1-byte types normalised to '<'."""
    s = np.dtype(dtype).str
    if s[0] in '|=':
        s = '<' + s[1:]
    return s


def pick_dtype(rng):
    return rng.choice(ALL_DTYPES)


def rand_bits(shape, dtype, vseed):
    """Random bit patterns viewed as dtype (NaN payloads, -0.0, subnormals,
    integer extremes all occur)."""
    dtype = np.dtype(dtype)
    n = int(np.prod(shape, dtype=np.int64)) if len(shape) else 1
    g = np.random.Generator(np.random.PCG64(vseed))
    raw = g.integers(0, 256, size=n * dtype.itemsize, dtype=np.uint8)
    return np.frombuffer(raw.tobytes(), dtype=dtype).reshape(shape).copy()


def special_values(dtype):
    dtype = np.dtype(dtype)
    k = dtype.kind
    if k in 'iu':
        ii = np.iinfo(dtype)
        return [ii.min, ii.max, 0, 1, ii.max - 1, ii.min + 1]
    if k == 'f':
        fi = np.finfo(dtype)
        return [float('nan'), -0.0, 0.0, float('inf'), float('-inf'),
                float(fi.tiny), float(fi.smallest_subnormal), float(fi.max), float(fi.min), 1.0]
    if k == 'c':
        return [complex(float('nan'), 1), complex(-0.0, -0.0), complex(float('inf'), float('-inf')),
                complex(1, float('nan')), 1 + 2j, 0j]
    raise ValueError(dtype)


def safe_ints(shape, dtype, vseed):
    """Small integers that every supported type represents exactly (0..100
    for unsigned targets, -100..100 otherwise); exact under any cast."""
    dtype = np.dtype(dtype)
    g = np.random.Generator(np.random.PCG64(vseed))
    lo = 0 if dtype.kind == 'u' else -100
    a = g.integers(lo, 101, size=shape, dtype=np.int64)
    if dtype.kind == 'c':
        b = g.integers(-100, 101, size=shape, dtype=np.int64)
        return (a + 1j * b).astype(dtype)
    return a.astype(dtype)


def base_values(gen, shape, dtype, vseed):
    dtype = np.dtype(dtype)
    shape = tuple(shape)
    if gen == 'rand':
        return rand_bits(shape, dtype, vseed)
    if gen == 'safe':
        return safe_ints(shape, dtype, vseed)
    if gen == 'nonneg':   # 0..100, exact in every type incl. unsigned
        g = np.random.Generator(np.random.PCG64(vseed))
        return g.integers(0, 101, size=shape, dtype=np.int64).astype(dtype)
    if gen == 'arange':
        n = int(np.prod(shape, dtype=np.int64))
        return (np.arange(n, dtype=np.int64) % 100).astype(dtype).reshape(shape)
    if gen == 'special':
        sv = special_values(dtype)
        n = int(np.prod(shape, dtype=np.int64))
        g = np.random.Generator(np.random.PCG64(vseed))
        idx = g.integers(0, len(sv), size=n)
        out = np.empty(n, dtype=dtype)
        with np.errstate(all='ignore'):
            for j in range(n):
                out[j] = sv[int(idx[j])]
        return out.reshape(shape)
    if gen == 'zeros':
        return np.zeros(shape, dtype=dtype)
    raise ValueError(gen)


def apply_layout(a, layout):
    """Return an array equal to `a` (same shape, dtype, values) with the
    requested memory layout."""
    if a.ndim == 0 or a.size == 0:
        return a
    if layout == 'C':
        return np.ascontiguousarray(a)
    if layout == 'F':
        return np.asfortranarray(a)
    if layout == 'strided':
        big = np.zeros((a.shape[0] * 2,) + a.shape[1:], dtype=a.dtype)
        big[::2] = a
        return big[::2]
    if layout == 'negstride':
        rev = np.ascontiguousarray(a[::-1])
        return rev[::-1]
    if layout == 'T':
        t = np.ascontiguousarray(a.T)
        return t.T
    if layout == 'bcast':
        # a broadcast view is only equal to `a` if rows repeat; emulate with
        # a view over a larger buffer with zero stride on a new length-1 use
        if a.shape[0] >= 1 and all((a[0] == a[j]).all() for j in range(a.shape[0])):
            return np.broadcast_to(a[0], a.shape)
        return np.ascontiguousarray(a)
    raise ValueError(layout)


def build(spec, trail=None, target_dtype=None):
    """Build the Python object denoted by a data spec.

    spec keys: gen, rows, trail (list|'match'), dtype (str|'same'), layout,
    form ('ndarray'|'list'|'tuple'|'scalar'|'npscalar'), vseed.
    `trail`/`target_dtype` resolve 'match'/'same' against the current state.
    Returns (obj, ndarray_equivalent)."""
    tr = spec.get('trail', 'match')
    if tr == 'match':
        tr = list(trail if trail is not None else [])
    d = spec.get('dtype', 'same')
    if d == 'same':
        d = dtstr(target_dtype)
    dtype = np.dtype(d)
    form = spec.get('form', 'ndarray')
    if form in ('scalar', 'npscalar'):
        a = base_values(spec.get('gen', 'safe'), (1,), dtype, spec.get('vseed', 0))
        v = a[0]
        obj = v.item() if form == 'scalar' else v
        return obj, a
    shape = (spec['rows'],) + tuple(tr)
    a = base_values(spec.get('gen', 'safe'), shape, dtype, spec.get('vseed', 0))
    if spec.get('bcastrows'):
        a = np.ascontiguousarray(np.broadcast_to(a[:1], a.shape)) if a.shape[0] else a
    a = apply_layout(a, spec.get('layout', 'C'))
    if form == 'ndarray' or (a.shape[0] == 0 and a.ndim > 1):
        return a, a     # a zero-row nested list cannot carry its trailing shape
    if form == 'list':
        return a.tolist(), a
    if form == 'tuple':
        def tup(x):
            return tuple(tup(y) for y in x) if isinstance(x, list) else x
        return tup(a.tolist()), a
    raise ValueError(form)


def arr_equal(a, b):
    """O-equal: same dtype incl. byte order, same shape, same bytes."""
    a = np.asarray(a)
    b = np.asarray(b)
    if dtstr(a.dtype) != dtstr(b.dtype):
        return False, f'dtype {dtstr(a.dtype)} != {dtstr(b.dtype)}'
    if a.shape != b.shape:
        return False, f'shape {a.shape} != {b.shape}'
    if np.ascontiguousarray(a).tobytes() != np.ascontiguousarray(b).tobytes():
        return False, 'bytes differ'
    return True, ''


def arr_digest(a):
    import hashlib
    a = np.asarray(a)
    h = hashlib.sha256()
    h.update(dtstr(a.dtype).encode())
    h.update(str(a.shape).encode())
    h.update(np.ascontiguousarray(a).tobytes())
    return h.hexdigest()[:12]
