"""./check --selftest determinism [P ...]: every engine, the same seeds twice at
two worker counts in this process, once more in a fresh interpreter, and once
under another PYTHONHASHSEED; the batch digests (sha256 over all run digests,
each a sha256 over the run's event log) must be identical."""
import os
import re
import subprocess
import sys

from . import core, registry


def batch_digest_subprocess(prop, runs, seed, jobs, hashseed):
    env = dict(os.environ)
    env['PYTHONHASHSEED'] = str(hashseed)
    p = subprocess.run([os.path.join(core.VERIF, 'check'), prop, '--runs', str(runs), '--no-evidence',
                        '--seed', str(seed), '--jobs', str(jobs)], capture_output=True, text=True, env=env, timeout=1800)
    m = re.search(r'digest=([0-9a-f]+)', p.stdout)
    return (m.group(1) if m else None), p.returncode


def main(which, a):
    from .main import run_check
    if which != 'determinism':
        print('unknown selftest', which)
        return 2
    props = [a.prop] if a.prop else registry.ALL
    runs = a.runs or 200
    bad = 0
    for prop in props:
        seed = 7
        d = []
        for jobs in (16, 3):
            code, ev, agg = run_check(prop, 'quick', seed, runs, jobs, 600, quiet=True, write_evidence=False)
            d.append(ev['coverage']['batch_digest'][:12])
        d3, rc3 = batch_digest_subprocess(prop, runs, seed, 7, 0)
        d4, rc4 = batch_digest_subprocess(prop, runs, seed, 11, 12345)
        ok = len({d[0], d[1], d3, d4}) == 1
        print(f'{prop} runs={runs} jobs16={d[0]} jobs3={d[1]} fresh_interpreter={d3} other_hashseed={d4} '
              f'{"DETERMINISTIC" if ok else "DIVERGES"}')
        sys.stdout.flush()
        if not ok:
            bad += 1
    return 0 if not bad else 2
