#!/bin/bash
# evalbatch2.sh <P> : evaluate /tmp/${WAVE:-w2}-<P>/mut{C,D,E}.patch against check <P>
p=$1; shift
for m in C D E; do
  if [ -f /tmp/${WAVE:-w2}-$p/mut$m.patch ]; then
    echo "=== $p mut$m"
    /venv/bin/python /verif/tools/evalmut.py /tmp/${WAVE:-w2}-$p/mut$m.patch /tmp/${WAVE:-w2}-$p/demo$m.py $p "$@" 2>&1 | /venv/bin/python -c "
import sys,json
t=sys.stdin.read()
try:
    d=json.loads(t[t.index('{'):])
except Exception:
    print(t[-800:]); sys.exit()
print(' tests_pass_with_patch=',d.get('tests_pass_with_patch'),' demo_without=',d.get('demo_without'),' demo_with=',d.get('demo_with'), d.get('demo_with_tail','')[:120])
for k,v in d.get('checks',{}).items():
    print('  check',k,'exit',v['exit'],'violations',v['violations'],'wall',v['wall'],v['harness'])
    for f in v['first']: print('     ',f[:260])
"
  fi
done
