"""Crash engine (C17): one mutating operation executes under a line tracer;
before every source line of Darr the array directory is compared with the
last materialised state and copied whenever it changed.  Each copy is exactly
what SIGKILL at that line would leave.  Torn variants of every single-file
transition are synthesised.  Every materialised directory is then opened by a
fresh handle: it must raise, or show the pre-state, the post-state, or - for
appends - the original followed by a whole number of chunks/subarrays."""
import hashlib
import os
import shutil
import sys
import numpy as np

from ..core import HarnessError, REPO, Union
from .. import data as D
from .. import meta as M
from ..oracles import json_equal
from . import arrayhist as AH
from . import raggedhist as RH
from .arrayhist import Viol, Diverged

DARR_PREFIX = os.path.join(os.path.realpath(REPO), 'darr') + os.sep


class CrashTracer:
    def __init__(self, watch, outdir):
        self.watch = watch
        self.outdir = outdir
        self.nlines = 0
        self.states = []          # [(state dir, line event no, 'file:line')]
        self.last_stat = None
        self.last_hash = None
        os.makedirs(outdir, exist_ok=True)

    def _files(self):
        out = []
        for root, dirs, files in os.walk(self.watch):
            dirs.sort()
            for f in sorted(files):
                out.append(os.path.join(root, f))
        return out

    def _statsig(self):
        sig = []
        for p in self._files():
            try:
                st = os.stat(p)
                sig.append((p, st.st_size, st.st_mtime_ns, st.st_ino))
            except OSError:
                sig.append((p, -1, 0, 0))
        return sig

    def _hash(self):
        h = hashlib.sha256()
        for p in self._files():
            h.update(os.path.relpath(p, self.watch).encode())
            try:
                with open(p, 'rb') as f:
                    h.update(f.read())
            except OSError:
                h.update(b'<gone>')
            h.update(b'|')
        return h.digest()

    def check(self, where, force=False):
        s = self._statsig()
        if s == self.last_stat and not force and self.nlines % 64:
            return
        self.last_stat = s
        hs = self._hash()
        if hs == self.last_hash:
            return
        self.last_hash = hs
        d = os.path.join(self.outdir, f's{len(self.states):03d}')
        shutil.copytree(self.watch, d)
        inodes = {os.path.relpath(p, self.watch): ino for p, _, _, ino in s}
        self.states.append((d, self.nlines, where, inodes))

    def _local(self, frame, event, arg):
        if event == 'line':
            self.nlines += 1
            co = frame.f_code
            self.check(f'{os.path.basename(co.co_filename)}:{frame.f_lineno}')
        return self._local

    def _global(self, frame, event, arg):
        if event == 'call' and frame.f_code.co_filename.startswith(DARR_PREFIX):
            return self._local
        return None

    def _audit(self, event, args):
        # how files under the watched directory are opened for writing: a truncating open ('w') can only be
        # torn into a prefix of the new text, an in-place overwrite ('r+') into new prefix + old tail
        if not self.auditing or event != 'open':
            return
        try:
            path, mode, flags = args[0], args[1], args[2]
            path = os.fspath(path) if not isinstance(path, int) else None
            if path is None:
                return
            path = os.path.abspath(path)
            if not path.startswith(self.watch_abs):
                return
            if flags & (os.O_WRONLY | os.O_RDWR) and not flags & (os.O_TRUNC | os.O_APPEND):
                self.inplace_opens.add(os.path.relpath(path, self.watch_abs))
        except Exception:
            pass

    def run(self, fn):
        """Execute fn() traced.  Returns the exception it raised or None."""
        self.watch_abs = os.path.abspath(self.watch)
        self.inplace_opens = set()
        self.auditing = True
        sys.addaudithook(self._audit)      # cannot be removed; the run's process ends soon, and it is switched off below
        self.check('<before>', force=True)
        exc = None
        old = sys.gettrace()
        sys.settrace(self._global)
        try:
            fn()
        except Exception as e:   # noqa
            exc = e
        finally:
            sys.settrace(old)
            self.auditing = False
        self.check('<after>', force=True)
        return exc


def _read(p):
    try:
        with open(p, 'rb') as f:
            return f.read()
    except OSError:
        return None


def torn_variants(a_dir, b_dir, out_root, itemsizes, tag, ino_a=None, ino_b=None, inplace_opens=()):
    """Directories that a torn write between state A and state B could leave.
    Yields (dir, description)."""
    names = set()
    for base in (a_dir, b_dir):
        for root, _, files in os.walk(base):
            for f in files:
                names.add(os.path.relpath(os.path.join(root, f), base))
    n = 0
    for rel in sorted(names):
        ca, cb = _read(os.path.join(a_dir, rel)), _read(os.path.join(b_dir, rel))
        if ca == cb:
            continue
        if ino_a and ino_b and rel in ino_a and rel in ino_b and ino_a[rel] != ino_b[rel]:
            continue            # another inode under the same name: the file was replaced atomically (rename)
        cuts = []
        inplace = []
        if cb is None:
            continue            # unlink is atomic
        if ca is not None and len(cb) > len(ca) and cb.startswith(ca):
            tail = len(cb) - len(ca)
            isz = itemsizes.get(os.path.dirname(rel), 1)
            half = (tail // 2) // isz * isz
            cuts += [('tail_half_aligned', len(ca) + half)] if 0 < half < tail else []
            cuts += [('tail_mid_element', len(ca) + half + max(1, isz // 2))] if half + max(1, isz // 2) < tail else []
            cuts += [('tail_first_byte', len(ca) + 1)] if tail > 1 else []
            cuts += [('tail_last_byte_missing', len(cb) - 1)] if tail > 1 else []
        else:
            L = len(cb)
            cuts += [('zero', 0)]
            for nm, c in (('prefix_1', 1), ('prefix_third', L // 3), ('prefix_two_thirds', 2 * L // 3), ('prefix_all_but_one', L - 1)):
                if 0 < c < L:
                    cuts.append((nm, c))
            if ca is not None and len(ca) < L:
                cuts.append(('prefix_old_length', len(ca)))
            if ca and cb and not cb.startswith(ca) and not ca.startswith(cb) and rel in inplace_opens:
                # the file went from old content to new content between two line events AND was opened for
                # writing without O_TRUNC during the operation (seen by the audit hook): it was overwritten in
                # place, so a torn write leaves a prefix of the new text followed by what was there before.
                # (With open(..., 'w') - also when truncation and write happen inside one source line - only
                # prefixes are reachable, and with os.replace nothing is.)
                diffs = [k for k in range(min(len(ca), L)) if ca[k] != cb[k]]
                for k in sorted({diffs[0] + 1, diffs[len(diffs) // 2] + 1, diffs[-1], (diffs[0] + diffs[-1]) // 2 + 1} if diffs else set()):
                    if 0 < k < L:
                        inplace.append((f'inplace_new{k}_old_tail', cb[:k] + ca[k:]))
        seen = set()
        for nm, c in cuts:
            if c in seen or c == len(cb) or (ca is not None and cb[:c] == ca):
                continue
            seen.add(c)
            d = os.path.join(out_root, f'{tag}-t{n:02d}')
            n += 1
            shutil.copytree(b_dir, d)
            with open(os.path.join(d, rel), 'wb') as f:
                f.write(cb[:c])
            yield d, f'{rel}:{nm}@{c}'
        for nm, content in inplace:
            if content == ca or content == cb:
                continue
            d = os.path.join(out_root, f'{tag}-t{n:02d}')
            n += 1
            shutil.copytree(b_dir, d)
            with open(os.path.join(d, rel), 'wb') as f:
                f.write(content)
            yield d, f'{rel}:{nm}'


class _CrashMixin:
    """Shared by the Array and Ragged crash states."""

    def crash_setup(self):
        self.crash_states = 0
        self.torn_states = 0
        self.state_digests = set()

    def crash_stats(self, s):
        s['extra'] = {'crash_states': self.crash_states, 'torn_states': self.torn_states,
                      'line_events': getattr(self, 'line_events', 0)}
        return s

    def judge_dirs(self, tracer, legit, itemsizes, opname):
        """legit: list of (label, observation).  Observation equality via self.same_obs."""
        states = tracer.states
        tornroot = os.path.join(self.sb, '_torn')
        os.makedirs(tornroot, exist_ok=True)
        outcomes = {}
        for si, (d, ln, where, inodes) in enumerate(states):
            self.crash_states += 1
            self.judge_one(d, legit, f'line_state:{where}', opname, outcomes)
            if si + 1 < len(states):
                for td, desc in torn_variants(d, states[si + 1][0], tornroot, itemsizes, f's{si:03d}',
                                              inodes, states[si + 1][3], tracer.inplace_opens):
                    self.torn_states += 1
                    self.judge_one(td, legit, f'torn:{desc}', opname, outcomes)
                    shutil.rmtree(td, ignore_errors=True)
        self.line_events = getattr(self, 'line_events', 0) + tracer.nlines
        for k, v in outcomes.items():
            self.probes['crash_outcome:' + k] = self.probes.get('crash_outcome:' + k, 0) + v
        if 'post' in outcomes and len(states) > 1:
            pass
        return outcomes

    def judge_one(self, d, legit, what, opname, outcomes):
        obs = self.observe_dir(d)
        if obs[0] == 'raises':
            outcomes['raises'] = outcomes.get('raises', 0) + 1
            return
        for label, lg in legit:
            if self.same_obs(obs[1], lg):
                key = label.split('#')[0]
                outcomes[key] = outcomes.get(key, 0) + 1
                return
        kind = what.split(':')[0]
        detail = f'{what}: opened and showed {self.describe(obs[1])}; legitimate: {[l for l, _ in legit]}'
        raise Viol('crash.wrong_data', f'{opname}:{kind}:{self.classify(obs[1], legit)}', detail[:600])


# =============================================================================
# Array
# =============================================================================

class ArrayCrash(AH.ArrayHistory):
    prop = 'C17'
    level = 'fault_enumeration'
    oracles = ()
    weights = dict(append=20, iterappend=10, setitem=6, truncate=12, mode=0, reopen=8,
                   append_bad=0, truncate_bad=0, meta=10, recreate=0)
    batch = 10
    run_timeout = 120.0

    def gen(self, rng, i, tier):
        dtype = D.pick_dtype(rng)
        ndim = rng.choice([1, 1, 2, 2, 3])
        trail = [rng.choice([1, 2, 3]) for _ in range(ndim - 1)]
        rows = rng.choice([0, 0, 1, 2, 3, 6])
        create = {'op': 'create', 'how': 'asarray',
                  'data': {'gen': 'rand', 'rows': rows, 'trail': trail, 'dtype': dtype, 'layout': 'C',
                           'form': 'ndarray', 'vseed': rng.getrandbits(32)}, 'mode': 'r+', 'chunklen': None}
        if rng.random() < 0.4:
            create['metadata'] = M.gen_dict(rng, n=rng.choice([1, 2]))
        ops = [create]
        for _ in range(rng.choice([0, 0, 1, 2, 4] + ([6, 8] if tier == 'thorough' else []))):
            ops.append(self.gen_op(rng))
        kind = rng.choice(['append', 'iterappend', 'iterappend', 'iterappend_fail', 'truncate', 'truncate',
                           'meta_set', 'meta_update', 'meta_pop', 'meta_del'])
        co = {'op': 'crashop', 'kind': kind}
        if kind in ('append', 'iterappend', 'iterappend_fail'):
            n = 1 if kind == 'append' else rng.choice([1, 2, 3, 4] + ([5, 6] if tier == 'thorough' else []))
            co['chunks'] = [self.gen_data(rng, rows=rng.choice([1, 1, 2, 3, 5]), other_dtype_p=0.15) for _ in range(n)]
            co['as'] = rng.choice(['list', 'generator'])
            if kind == 'iterappend_fail':
                co['pos'] = rng.randint(0, n)
                co['how'] = rng.choice(['raise', 'badshape'])
        elif kind == 'truncate':
            co['index'] = rng.choice([0, 1, 2, -1, -1, -2])
        elif kind == 'meta_set':
            co['key'] = rng.choice(M.KEYS)
            co['value'] = M.gen_value(rng)
        elif kind == 'meta_update':
            co['d'] = M.gen_dict(rng, n=rng.choice([1, 2, 3]))
        else:
            co['key'] = rng.choice(M.KEYS)
        ops.append(co)
        return {'engine': type(self).__name__, 'prop': self.prop, 'ops': ops}

    def simplify(self, sc):
        yield from super().simplify(sc)
        import copy
        i = len(sc['ops']) - 1
        op = sc['ops'][i]
        if op['op'] == 'crashop' and 'chunks' in op:
            ch = op['chunks']
            for j in range(len(ch)):
                if len(ch) > 1:
                    c = copy.deepcopy(sc)
                    c['ops'][i] = dict(op, chunks=ch[:j] + ch[j + 1:], pos=min(op.get('pos', 0), len(ch) - 1))
                    yield c
            for j, d in enumerate(ch):
                if d.get('layout') != 'C' or d.get('dtype') != 'same' or d.get('form') != 'ndarray' or d['rows'] > 1:
                    c = copy.deepcopy(sc)
                    c['ops'][i] = dict(op, chunks=ch[:j] + [dict(d, layout='C', dtype='same', form='ndarray', rows=1)] + ch[j + 1:])
                    yield c

    def features(self, sc, v):
        op = sc['ops'][-1]
        return ['kind=' + op.get('kind', '?')] if op['op'] == 'crashop' else []

    def rule(self):
        return ('scenario = seeded start state (create + 0-4 prefix ops) and one crashing op (append, iterappend of 1-4 '
                'chunks, iterappend whose iterable fails at k, truncate, metadata set/update/pop/del); crash points = every '
                'distinct on-disk state between two executed source lines of Darr (exhaustive for the traced execution) '
                'plus torn variants of each single-file transition; non-trivial = at least 2 distinct crash states '
                'materialised; distinct = distinct scenario digests')

    def nontrivial(self, scenario, stats):
        return (stats.get('extra') or {}).get('crash_states', 0) >= 2

    def components(self):
        c = super().components()
        c['real'].append('sys.settrace line events in /repo/darr frames as crash points; directory copies as post-crash disks')
        c['stub'].append('torn writes are synthesised from consecutive snapshots (truncated tail / prefix of rewritten text), not produced by a block device')
        return c


class _ACState(_CrashMixin, AH._State):

    def __init__(self, *a):
        super().__init__(*a)
        self.crash_setup()

    def stats(self):
        return self.crash_stats(super().stats())

    def step(self, op):
        if op['op'] == 'crashop':
            if self.h is None:
                return
            if self.mode != 'r+':
                self.h.accessmode = 'r+'
                self.mode = 'r+'
            return self.do_crashop(op)
        return super().step(op)

    # observation of a materialised directory
    def observe_dir(self, d):
        try:
            h = self.darr.Array(d)
            a = h[:]
            md = dict(h.metadata)
            return ('ok', (D.dtstr(h.dtype), tuple(h.shape), np.array(a, copy=True), md))
        except Exception as e:   # noqa
            return ('raises', type(e).__name__)

    def same_obs(self, o, lg):
        return (o[0] == lg[0] and o[1] == lg[1] and D.arr_equal(o[2], lg[2])[0] and json_equal(o[3], lg[3]))

    def describe(self, o):
        return f'dtype={o[0]} shape={o[1]} meta={o[3]!r} data={D.arr_digest(o[2])}'

    def classify(self, o, legit):
        pre = legit[0][1]
        if o[1] != pre[1] and not any(o[1] == lg[1] for _, lg in legit):
            return 'illegitimate_shape'
        if not any(D.arr_equal(o[2], lg[2])[0] for _, lg in legit):
            return 'illegitimate_contents'
        return 'illegitimate_combination'

    def mk(self, arr, meta):
        return (D.dtstr(arr.dtype), tuple(arr.shape), arr, meta)

    def do_crashop(self, op):
        m = self.model
        kind = op['kind']
        pre_meta = dict(self.meta)
        legit = [('pre', self.mk(m, pre_meta))]
        post_model, post_meta = m, pre_meta
        if kind in ('append', 'iterappend', 'iterappend_fail'):
            objs, exps = [], []
            for d in op['chunks']:
                obj, _ = D.build(d, trail=m.shape[1:], target_dtype=m.dtype)
                e = self.model_cast(obj)
                if e is None:
                    obj, _ = D.build(dict(d, form='ndarray'), trail=m.shape[1:], target_dtype=m.dtype)
                    e = self.model_cast(obj)
                objs.append(obj)
                exps.append(e)
            n = len(objs)
            upto = n
            raise_at = None
            if kind == 'iterappend_fail':
                pos = min(op.get('pos', 0), n)
                upto = pos
                if op.get('how') == 'raise':
                    raise_at = pos
                else:
                    tr = list(m.shape[1:])
                    tr = (tr[:-1] + [tr[-1] + 1]) if tr else [2]
                    objs = objs[:pos] + [np.zeros([1] + tr, dtype=m.dtype)] + objs[pos:]
            for j in range(1, upto + 1):
                st = np.concatenate([m] + exps[:j]).astype(m.dtype, copy=False)
                legit.append((f'pre+{j}#', self.mk(st, pre_meta)))
            post_model = legit[-1][1][2]
            from .appendfault import _iterable
            if kind == 'append':
                arg = objs[0]
                fn = lambda: self.h.append(arg)    # noqa
            else:
                it = _iterable(objs, op.get('as', 'list'), raise_at)
                fn = lambda: self.h.iterappend(it)  # noqa
        elif kind == 'truncate':
            index = int(op['index'])
            newlen = len(m[:index])
            if 0 <= newlen < m.shape[0]:
                post_model = m[:index].copy()
                legit.append(('post', self.mk(post_model, pre_meta)))
            fn = lambda: self.darr.truncate_array(self.h, index)   # noqa
        else:
            md = self.h.metadata
            newmeta = dict(pre_meta)
            if kind == 'meta_set':
                v = M.build_value(op['value'])
                newmeta[op['key']] = M.json_normalise(v)
                fn = lambda: md.__setitem__(op['key'], v)   # noqa
            elif kind == 'meta_update':
                dd = M.build_dict(op['d'])
                newmeta.update(M.json_normalise(dd))
                fn = lambda: md.update(dd)   # noqa
            elif kind == 'meta_pop':
                newmeta.pop(op['key'], None)
                fn = lambda: md.pop(op['key'], None)   # noqa
            else:
                newmeta.pop(op['key'], None)
                fn = lambda: md.__delitem__(op['key'])   # noqa
            post_meta = newmeta
            legit.append(('post', self.mk(m, newmeta)))
            if not pre_meta and newmeta:
                self.probe('crash_while_creating_metadata_file')
            if pre_meta and not newmeta:
                self.probe('crash_while_removing_metadata_file')
        tracer = CrashTracer(self.path, os.path.join(self.sb, '_states'))
        exc = tracer.run(fn)
        self.probe('crashop:' + kind)
        if m.shape[0] == 0:
            self.probe('crashop_on_empty_array')
        itemsizes = {'': m.dtype.itemsize}
        outcomes = self.judge_dirs(tracer, legit, itemsizes, kind)
        shutil.rmtree(os.path.join(self.sb, '_states'), ignore_errors=True)
        # keep the model in step (the op itself is also checked, cheaply)
        try:
            fresh = self.darr.Array(self.path)
            ok = D.arr_equal(fresh[:], post_model)[0] and json_equal(dict(fresh.metadata), post_meta)
        except Exception as e:
            # what an operation that ran to its end (no crash) leaves is C03's/C09's/C13's subject
            self.probe('completed_op_left_unopenable_array_history_ended')
            raise Diverged(f'crash.completed_op:{kind}:unopenable:{type(e).__name__}')
        if not ok:
            self.probe('completed_op_final_state_differs_from_model_history_ended')
            raise Diverged(f'crash.completed_op:{kind}:wrong_final_state')
        self.model, self.meta = post_model, post_meta
        self.mutations_ok += 1
        self.steps += 1
        self.transitions.add(f'{self.abstract()}|crash:{kind}|states{min(len(tracer.states), 20)}')
        self.emit({'step': self.idx, 'op': 'crashop', 'kind': kind, 'states': len(tracer.states),
                   'lines': tracer.nlines, 'outcomes': dict(sorted(outcomes.items())),
                   'exc': type(exc).__name__ if exc else None})


ArrayCrash.state_cls = _ACState


# =============================================================================
# Ragged
# =============================================================================

class RaggedCrash(RH.RaggedHistory):
    prop = 'C17'
    level = 'fault_enumeration'
    oracles = ()
    weights = dict(append=22, iterappend=10, truncate=12, mode=0, reopen=8, append_bad=0,
                   truncate_bad=0, getbad=0, iter=0, meta=8)
    batch = 8
    create_empty_p = 0.08
    run_timeout = 120.0

    def gen(self, rng, i, tier):
        create = self.gen_create(rng)
        if rng.random() < 0.4:
            create['metadata'] = M.gen_dict(rng, n=rng.choice([1, 2]))
        ops = [create]
        for _ in range(rng.choice([0, 0, 1, 2, 3])):
            ops.append(self.gen_op(rng))
        kind = rng.choice(['append', 'append', 'iterappend', 'iterappend', 'iterappend_fail', 'truncate', 'truncate',
                           'meta_set', 'meta_pop'])
        co = {'op': 'crashop', 'kind': kind}
        if kind in ('append', 'iterappend', 'iterappend_fail'):
            n = 1 if kind == 'append' else rng.choice([1, 2, 3, 4] + ([5, 6] if tier == 'thorough' else []))
            co['items'] = [self.gen_item(rng, other_p=0.15) for _ in range(n)]
            co['as'] = rng.choice(['list', 'generator'])
            if kind == 'iterappend_fail':
                co['pos'] = rng.randint(0, n)
                co['how'] = rng.choice(['raise', 'badshape'])
        elif kind == 'truncate':
            co['index'] = rng.choice([0, 1, 2, -1, -1, -2])
        elif kind == 'meta_set':
            co['key'] = rng.choice(M.KEYS)
            co['value'] = M.gen_value(rng)
        else:
            co['key'] = rng.choice(M.KEYS)
        ops.append(co)
        return {'engine': type(self).__name__, 'prop': self.prop, 'ops': ops}

    def features(self, sc, v):
        op = sc['ops'][-1]
        return ['kind=' + op.get('kind', '?')] if op['op'] == 'crashop' else []

    def rule(self):
        return ArrayCrash().rule().replace('chunks', 'subarrays')

    def nontrivial(self, scenario, stats):
        return (stats.get('extra') or {}).get('crash_states', 0) >= 2

    def components(self):
        c = super().components()
        c['real'].append('sys.settrace line events in /repo/darr frames as crash points; directory copies as post-crash disks')
        c['stub'].append('torn writes are synthesised from consecutive snapshots (truncated tail / prefix of rewritten text), not produced by a block device')
        return c


class _RCState(_CrashMixin, RH._RState):

    def __init__(self, *a):
        super().__init__(*a)
        self.crash_setup()

    def stats(self):
        return self.crash_stats(super().stats())

    def step(self, op):
        if op['op'] == 'crashop':
            if self.h is None:
                return
            if self.mode != 'r+':
                self.h.accessmode = 'r+'
                self.mode = 'r+'
            return self.do_crashop(op)
        return super().step(op)

    def observe_dir(self, d):
        try:
            h = self.darr.RaggedArray(d)
            subs = [np.array(h[k], copy=True) for k in range(len(h))]
            md = dict(h.metadata)
            return ('ok', (D.dtstr(h.dtype), tuple(h.atom), subs, md))
        except Exception as e:   # noqa
            return ('raises', type(e).__name__)

    def same_obs(self, o, lg):
        return (o[0] == lg[0] and o[1] == lg[1] and len(o[2]) == len(lg[2])
                and all(D.arr_equal(a, b)[0] for a, b in zip(o[2], lg[2])) and json_equal(o[3], lg[3]))

    def describe(self, o):
        return f'dtype={o[0]} atom={o[1]} lens={[a.shape[0] for a in o[2]]} meta={o[3]!r}'

    def classify(self, o, legit):
        lens = [a.shape[0] for a in o[2]]
        for _, lg in legit:
            if [a.shape[0] for a in lg[2]] == lens:
                return 'illegitimate_contents'
        if len(lens) in [len(lg[2]) for _, lg in legit]:
            return 'illegitimate_subarray_lengths'
        return 'illegitimate_count'

    def mk(self, L, meta):
        return (D.dtstr(self.dtype), tuple(self.atom), list(L), meta)

    def do_crashop(self, op):
        kind = op['kind']
        L = list(self.L)
        pre_meta = dict(self.meta)
        legit = [('pre', self.mk(L, pre_meta))]
        post_L, post_meta = L, pre_meta
        if kind in ('append', 'iterappend', 'iterappend_fail'):
            objs, exps = [], []
            for d in op['items']:
                obj, _ = D.build(d, trail=self.atom, target_dtype=self.dtype)
                e = self.model_item(obj)
                if e is None:
                    obj, _ = D.build(dict(d, form='ndarray'), trail=self.atom, target_dtype=self.dtype)
                    e = self.model_item(obj)
                objs.append(obj)
                exps.append(e)
            if not self.capacity_ok(sum(e.shape[0] for e in exps)):
                return
            n = len(objs)
            upto, raise_at = n, None
            if kind == 'iterappend_fail':
                pos = min(op.get('pos', 0), n)
                upto = pos
                if op.get('how') == 'raise':
                    raise_at = pos
                else:
                    atom = list(self.atom)
                    tr = (atom[:-1] + [atom[-1] + 1]) if atom else [2]
                    objs = objs[:pos] + [np.zeros([1] + tr, dtype=self.dtype)] + objs[pos:]
            for j in range(1, upto + 1):
                legit.append((f'pre+{j}#', self.mk(L + exps[:j], pre_meta)))
            post_L = legit[-1][1][2]
            from .appendfault import _iterable
            if kind == 'append':
                arg = objs[0]
                fn = lambda: self.h.append(arg)    # noqa
            else:
                it = _iterable(objs, op.get('as', 'list'), raise_at)
                fn = lambda: self.h.iterappend(it)  # noqa
        elif kind == 'truncate':
            index = int(op['index'])
            newlen = len(L[:index])
            if 0 <= newlen < len(L):
                post_L = L[:index]
                legit.append(('post', self.mk(post_L, pre_meta)))
            fn = lambda: self.darr.truncate_raggedarray(self.h, index)   # noqa
        else:
            md = self.h.metadata
            newmeta = dict(pre_meta)
            if kind == 'meta_set':
                v = M.build_value(op['value'])
                newmeta[op['key']] = M.json_normalise(v)
                fn = lambda: md.__setitem__(op['key'], v)   # noqa
            else:
                newmeta.pop(op['key'], None)
                fn = lambda: md.pop(op['key'], None)   # noqa
            post_meta = newmeta
            legit.append(('post', self.mk(L, newmeta)))
        tracer = CrashTracer(self.path, os.path.join(self.sb, '_states'))
        exc = tracer.run(fn)
        self.probe('crashop:' + kind)
        if not L:
            self.probe('crashop_on_empty_ragged')
        itemsizes = {'values': self.dtype.itemsize * max(1, int(np.prod(self.atom, dtype=np.int64))),
                     'indices': np.dtype(self.indextype).itemsize}
        outcomes = self.judge_dirs(tracer, legit, itemsizes, kind)
        shutil.rmtree(os.path.join(self.sb, '_states'), ignore_errors=True)
        try:
            fresh = self.darr.RaggedArray(self.path)
            ok = len(fresh) == len(post_L) and all(D.arr_equal(fresh[k], post_L[k])[0] for k in range(len(post_L))) \
                and json_equal(dict(fresh.metadata), post_meta)
        except Exception as e:
            self.probe('completed_op_left_unopenable_array_history_ended')
            raise Diverged(f'crash.completed_op:{kind}:unopenable:{type(e).__name__}')
        if not ok:
            self.probe('completed_op_final_state_differs_from_model_history_ended')
            raise Diverged(f'crash.completed_op:{kind}:wrong_final_state')
        self.L, self.meta = list(post_L), post_meta
        self.mutations_ok += 1
        self.steps += 1
        self.transitions.add(f'{self.abstract()}|crash:{kind}|states{min(len(tracer.states), 24)}')
        self.emit({'step': self.idx, 'op': 'crashop', 'kind': kind, 'states': len(tracer.states),
                   'lines': tracer.nlines, 'outcomes': dict(sorted(outcomes.items())),
                   'exc': type(exc).__name__ if exc else None})


RaggedCrash.state_cls = _RCState


def build():
    return Union('C17', [(1, ArrayCrash()), (1, RaggedCrash())], level='fault_enumeration',
                 batch=8, run_timeout=120.0)
