#!/venv/bin/python
"""Regenerate /verif/MANIFEST.json from the table below."""
import json
import os
import sys

HERE = os.path.dirname(os.path.dirname(os.path.abspath(__file__)))

TECH = 'deterministic simulation with fault injection: seeded op/fault sequences against an executable reference model'

P = {
 'C01': dict(cat='exploration', tech='seeded input generation against a NumPy reference model with restart (degenerate simulation: no fault or schedule in the statement)',
             text='Seeded generator over input form x 13 types x byte order x layout x rank x dtype argument x chunklen x fill, each creation re-done under further chunk lengths and re-read through a fresh handle; bitwise equality with the NumPy reference. Sampling evidence, not proof; the statement quantifies over inputs only, so the simulator contributes generation, restart and knob variation.',
             note='trusts NumPy (np.asarray/astype/np.full) as reference semantics and tmpfs as the disk', ref='5 C01, 6'),
 'C02': dict(cat='exploration', tech=TECH + '; independent format decoder as peer reader after every step',
             text='Array histories (append, iterappend, assignment, truncate, metadata, overwrite re-creation, restart); after every completed step a decoder that shares no code with Darr reconstructs the array from the three files and must agree bit for bit with the model and with the live and a fresh handle; size equation and the six keys checked.',
             note='decoder implements the documented format from its own 13x2 type table; trusts NumPy frombuffer', ref='5 C02'),
 'C03': dict(cat='exploration', tech=TECH,
             text='Seeded op lists over append/iterappend/setitem/truncate/mode/restart incl. rejected variants from empty and non-empty 1-3-D starts in all 26 dtype/byte-order cells; model equality on live and fresh handle after every step, prefix-byte invariants on the raw file, rejected calls leave the state unchanged.',
             note='NumPy concatenate/assignment/slicing as reference semantics', ref='5 C03'),
 'C04': dict(cat='exploration', tech=TECH,
             text='Seeded ragged histories (create_raggedarray/asraggedarray, append, iterappend, truncate, mode, restart, bad items, bad indices, iter_arrays); every subarray index in [-len-1, len] read on live and fresh handle after every step against a list-of-ndarrays model; stored index type checked.',
             note='np.asarray(item, dtype) as item semantics; bool indices not generated', ref='5 C04'),
 'C05': dict(cat='exploration', tech=TECH + '; independent ragged decoder as peer reader after every step',
             text='The C04 histories; after every completed step an independent decoder checks both sub-arrays (C02 sense), the index invariants (first start 0, contiguous, start<=end, last end = N), recomputes every subarray from values[start:end] and checks the top-level descriptor (len, size, atom, numtype, darrobject).',
             note='decoder shares no code with Darr', ref='5 C05'),
 'C08': dict(cat='exploration', tech=TECH + '; differential README regeneration on a copy',
             text='Array and ragged histories with metadata creation/deletion and overwrite re-creation, biased to cross 5/6/7 subarrays; after every step each README (array, ragged, values, indices) must be byte-identical to what Darr regenerates from a fresh handle on a copy of the directory, must contain every offered readcode() snippet, the dimensions/length, the subarray count and listing, and mention metadata.json iff metadata exist.',
             note='uses the private _update_readmetxt of a fresh handle on a copy as the regeneration entry point (absence = HARNESS-ERROR)', ref='5 C08'),
 'C09': dict(cat='fault_enumeration', tech=TECH + '; kernel RLIMIT_FSIZE write refusal at byte offsets, ENOSPC seam on the n-th tofile, failing iterables',
             text='Start state from a seeded prefix history (incl. empty by creation and by truncation), then one append/iterappend of 0-6 chunks under one sampled fault: iterable raises / bad shape / bad rank / unconvertible at position k; RLIMIT_FSIZE at chunk boundary +-1, mid element, mid row (through the real numpy tofile + stdio path); ENOSPC after b bytes of the n-th tofile; fault-free control. Oracle: raised, opens, decodes, equals original ++ completed chunks, live = fresh, no leaked descriptor.',
             note='fault positions are sampled, not enumerated exhaustively; RLIMIT_FSIZE is process-wide so the data file is made the only file above the limit', ref='5 C09'),
 'C10': dict(cat='fault_enumeration', tech=TECH + '; kernel RLIMIT_FSIZE aimed at values or indices file, ENOSPC seam per file, index overflow, failing iterables',
             text='As C09 for RaggedArray.append/iterappend: iterable faults, index overflow with int8/uint8/int16 index types, RLIMIT_FSIZE aimed at the values file or (1100+ one-byte subarrays) at the indices file, ENOSPC on the n-th values write or n-th index-row write; control batch. Oracle: raised, opens, independent ragged decoder accepts, subarrays = original ++ completely appended, live = fresh.',
             note='as C09', ref='5 C10'),
 'C11': dict(cat='exploration', tech=TECH + '; mode-switch histories with byte snapshots',
             text="Array and RaggedArray histories with a mode dimension ('r' by default open, at creation, by assignment after switches); in every 'r' state each mutating entry point (setitem, append, iterappend, truncate, delete, metadata update/setitem/pop/popitem/del) is fired: must raise (unless a genuine no-op) and leave the directory byte-identical; the same record must then succeed in 'r+' and match the model.",
             note='byte snapshot of the whole array directory; delete ends the run', ref='5 C11'),
 'C13': dict(cat='exploration', tech=TECH,
             text='Metadata histories on Array and RaggedArray from the starts {no file, metadata at creation, empty dict at creation}: setitem, update (dict/kwargs/empty/non-serialisable), pop with and without default, popitem, del, restart; every read accessor on live and fresh handle equals the JSON round-trip of a model dict; file exists iff non-empty; exception classes as stated.',
             note='own JSON normaliser; NaN compared NaN-aware', ref='5 C13'),
}
BUILT = ['C02', 'C03', 'C04', 'C05', 'C08', 'C09', 'C10', 'C11', 'C13']

ALL = ['C%02d' % i for i in range(1, 21)]


def main():
    checks = []
    for pid in ALL:
        if pid not in BUILT:
            continue
        d = P[pid]
        checks.append({
            'property_id': pid,
            'quick_cmd': f'./check {pid} --tier quick',
            'thorough_cmd': f'./check {pid} --tier thorough',
            'evidence_file': f'/verif/evidence/{pid}.json',
            'replay_cmd_template': f'./check {pid} --replay {{path}}',
            'engine': 'dsim',
            'level_claimed': {'category': d['cat'], 'text': d['text'], 'design_ref': 'DESIGN.md section ' + d['ref']},
            'level_note': d['note'],
            'technique': d['tech'],
        })
    na = [{'property_id': pid, 'reason': 'check not yet built in this commit (work in progress; planned per DESIGN.md section 5)'}
          for pid in ALL if pid not in BUILT]
    m = {
        'version': 1,
        'setup_cmd': './check --setup',
        'hooks': {'guard': 'DARR_DSIM', 'enable': 'no source hooks: all seams are outside /repo (sandbox directory, RLIMIT_FSIZE, rebinding Array._checkarrayforappend in the harness process, sys.settrace, /proc/self/fd)',
                  'baseline_off_cmd': 'cd /repo && /venv/bin/python -m pytest -ra -q -p no:cacheprovider --timeout=900 --continue-on-collection-errors',
                  'source_commits': [], 'add_only': True},
        'engines': [{'name': 'dsim', 'path': '/verif/dsim', 'serves_properties': BUILT,
                     'kind_free_text': 'seeded deterministic simulator: op/fault lists as JSON, fork-per-run, reference models, ddmin shrinking, replay files'}],
        'checks': checks,
        'not_applicable': na,
        'notes': 'All checks import darr from /repo working tree (VERIF_REPO overrides). fix: commits in /repo repair genuine defects found by these checks; see known_findings.json and DESIGN.md section 9.',
    }
    with open(os.path.join(HERE, 'MANIFEST.json'), 'w') as f:
        json.dump(m, f, indent=1)
    print('wrote MANIFEST.json with', len(checks), 'checks;', len(na), 'not yet built')


if __name__ == '__main__':
    main()
