"""./check <P> --tier quick|thorough | --replay <file> | --selftest ...

Exit 0: property held on everything explored (known findings are printed as
KNOWN-FINDING lines).  Exit 1: VIOLATION property=<P> replay=<path>.
Exit 2: HARNESS-ERROR / HARNESS-TIMEOUT (the run proves nothing)."""
import argparse
import hashlib
import json
import os
import subprocess
import sys
import time

from . import core, registry
from .core import canon


def load_findings():
    p = os.path.join(core.VERIF, 'known_findings.json')
    if not os.path.exists(p):
        return {'findings': [], 'fixed': []}
    with open(p) as f:
        return json.load(f)


def match_finding(findings, prop, violation, feats):
    for f in findings.get('findings', []):
        if f['property'] != prop:
            continue
        m = f['match']
        o = m.get('oracle')
        if o is not None:
            if o.endswith('*'):
                if not violation['oracle'].startswith(o[:-1]):
                    continue
            elif violation['oracle'] != o:
                continue
        s = m.get('signature')
        if s is not None:
            if s.endswith('*'):
                if not violation['signature'].startswith(s[:-1]):
                    continue
            elif violation['signature'] != s:
                continue
        if not set(m.get('features', [])).issubset(set(feats)):
            continue
        if set(m.get('not_features', [])) & set(feats):
            continue
        return f
    return None


def repo_rev():
    try:
        rev = subprocess.run(['git', '-C', core.REPO, 'rev-parse', '--short', 'HEAD'],
                             capture_output=True, text=True, timeout=10).stdout.strip()
        dirty = subprocess.run(['git', '-C', core.REPO, 'status', '--porcelain', '-uno'],
                               capture_output=True, text=True, timeout=10).stdout.strip()
        return rev + ('+dirty' if dirty else '')
    except Exception:
        return 'unknown'


def write_replay(engine, prop, verif_seed, rec, scenario, violation, digest):
    os.makedirs(os.path.join(core.VERIF, 'replays'), exist_ok=True)
    sig = hashlib.sha256((violation['oracle'] + violation['signature']).encode()).hexdigest()[:8]
    path = os.path.join(core.VERIF, 'replays', f'{prop}-seed{verif_seed}-run{rec["i"]}-{sig}.json')
    with open(path, 'w') as f:
        json.dump({'format': 1, 'property': prop, 'verif_seed': verif_seed, 'run_index': rec['i'],
                   'engine': type(engine).__name__, 'scenario': scenario,
                   'expect': {'oracle': violation['oracle'], 'signature': violation['signature'],
                              'op_index': violation.get('op_index'), 'op': violation.get('op'),
                              'detail': violation.get('detail')},
                   'digest': digest, 'darr_tree': repo_rev()}, f, indent=1, sort_keys=True)
    return path


def do_replay(prop, path):
    engine = registry.get(prop)
    with open(path) as f:
        rp = json.load(f)
    rec = core.execute_scenario(engine, rp['scenario'], 'replay')
    if rec['verdict'] == 'held':
        print(f'REPLAY property={prop} no violation any more (scenario holds on this tree)')
        return 0
    if rec['verdict'] != 'violation':
        print(f'HARNESS-ERROR replay: {rec["verdict"]}: {rec["detail"]}')
        return 2
    v = rec['violation']
    exp = rp['expect']
    same = v['oracle'] == exp['oracle'] and v['signature'] == exp['signature']
    print(f'replayed: oracle={v["oracle"]} signature={v["signature"]} op_index={v.get("op_index")} '
          f'detail={v.get("detail")}')
    if not same:
        print(f'REPLAY property={prop} violates differently: expected {exp["oracle"]}:{exp["signature"]}')
    elif rec['digest'] != rp['digest']:
        print(f'NOTE: event-log digest differs from the recorded one ({rec["digest"][:12]} vs {rp["digest"][:12]})')
    print(f'VIOLATION property={prop} replay={path}')
    return 1


def _enum_total(engine):
    if hasattr(engine, 'subs'):
        return sum(e.enum_total() for _, e in engine.subs if hasattr(e, 'enum_total'))
    return engine.enum_total() if hasattr(engine, 'enum_total') else 0


def run_check(prop, tier, verif_seed, nruns, jobs, wall_cap, evidence_path=None, quiet=False,
              start=0, write_evidence=True):
    engine = registry.get(prop)
    t0 = time.time()
    nruns = nruns or (engine.quick_runs if tier == 'quick' else engine.thorough_runs)
    wall_cap = wall_cap or (engine.quick_wall_cap if tier == 'quick' else engine.thorough_wall_cap)
    agg = dict(runs=0, held=0, viol=[], herr=[], tout=[], steps=0, faults={}, probes={},
               transitions=set(), sdigs=set(), nontrivial=set(), samples=[], digests=[], extra={})

    def on_result(rec):
        agg['runs'] += 1
        agg['digests'].append((rec['i'], rec['digest']))
        if rec.get('enumerated'):
            agg['enumerated'] = agg.get('enumerated', 0) + 1
        st = rec.get('stats') or {}
        agg['steps'] += st.get('steps', 0)
        for k, v in (st.get('faults') or {}).items():
            agg['faults'][k] = agg['faults'].get(k, 0) + v
        for k, v in (st.get('probes') or {}).items():
            agg['probes'][k] = agg['probes'].get(k, 0) + v
        for k, v in (st.get('extra') or {}).items():
            if isinstance(v, (int, float)):
                agg['extra'][k] = agg['extra'].get(k, 0) + v
            elif isinstance(v, list):
                agg['extra'].setdefault(k, set()).update(v)
        agg['transitions'].update(st.get('transitions') or [])
        if st.get('cov'):
            agg.setdefault('cov', set()).update(st['cov'])
            agg['cov_runs'] = agg.get('cov_runs', 0) + 1
        if rec.get('sdig'):
            agg['sdigs'].add(rec['sdig'])
            if rec.get('nontrivial') and rec['verdict'] in ('held', 'violation'):
                agg['nontrivial'].add(rec['sdig'])
        if rec.get('scenario') is not None and len(agg['samples']) < 2 and rec['verdict'] == 'held':
            agg['samples'].append(rec['scenario'])
        if rec['verdict'] == 'held':
            agg['held'] += 1
        elif rec['verdict'] == 'violation':
            agg['viol'].append(rec)
        elif rec['verdict'] == 'timeout':
            agg['tout'].append(rec)
        else:
            agg['herr'].append(rec)

    info = core.run_batches(prop, engine, verif_seed, tier, nruns, jobs, wall_cap, on_result, start=start)

    # ---- a run that hit the wall-clock limit of its child proves nothing either way: once the pool
    # is idle, execute the same scenario again (same seed, hence same scenario) with three times the
    # limit; only a run that times out twice stays a HARNESS-TIMEOUT (exit 2, never exit 0 or 1)
    retried = 0
    for rec in list(agg['tout']):
        if rec.get('scenario') is None:
            continue
        retried += 1
        rr = core.execute_scenario(engine, rec['scenario'], f'retry-{rec["i"]}',
                                   timeout=3 * getattr(engine, 'run_timeout', 60.0))
        if rr['verdict'] == 'timeout':
            continue
        agg['tout'].remove(rec)
        agg['runs'] -= 1
        agg['digests'] = [d for d in agg['digests'] if d[0] != rec['i']]
        on_result(dict(rec, verdict=rr['verdict'], violation=rr['violation'], detail=rr['detail'],
                       stats=rr['stats'], digest=rr['digest']))
    agg['extra']['timeouts_retried'] = retried

    # ---- triage violations: group, shrink, replay-verify, match findings
    findings = load_findings()
    groups = {}
    for rec in sorted(agg['viol'], key=lambda r: r['i']):
        key = (rec['violation']['oracle'], rec['violation']['signature'], str(rec['violation'].get('op')))
        groups.setdefault(key, []).append(rec)
    out_lines = []
    n_viol = 0
    known_hits = {}
    shrink_budget_total = 1200 if tier == 'quick' else 4000
    per = max(60, shrink_budget_total // max(1, min(len(groups), 8) * 2))
    unshrunk = 0
    t_triage = time.time()
    triage_cap = 60.0 if tier == 'quick' else 300.0
    for gi, (key, recs) in enumerate(sorted(groups.items())):
        picks = [recs[0]] + ([recs[len(recs) // 2]] if len(recs) > 2 else [])
        if gi >= 8:
            picks = [recs[0]]
        for rec in picks:
            if time.time() - t_triage > triage_cap or gi >= 16:
                # enough minimised examples: the rest is reported un-minimised
                sc, v, used = rec['scenario'], rec['violation'], 0
                unshrunk += 1
            else:
                sc, v, used = core.shrink(engine, rec['scenario'], rec['violation'], f'shrink-{rec["i"]}', budget=per)
            rr = core.execute_scenario(engine, sc, f'verify-{rec["i"]}')
            if rr['verdict'] != 'violation' or not core.same_failure(rr['violation'], v):
                out_lines.append(f'HARNESS-ERROR non-deterministic: run {rec["i"]} minimised scenario did not reproduce')
                agg['herr'].append(dict(i=rec['i'], detail='minimised scenario did not reproduce', verdict='harness_error'))
                continue
            feats = engine.features(sc, rr['violation'])
            kf = match_finding(findings, prop, rr['violation'], feats)
            path = write_replay(engine, prop, verif_seed, rec, sc, rr['violation'], rr['digest'])
            if kf:
                known_hits.setdefault(kf['id'], [kf, 0, path])[1] += len(recs) if rec is recs[0] else 0
            else:
                n_viol += 1
                out_lines.append(f'  violation: oracle={v["oracle"]} signature={v["signature"]} op={v.get("op")} '
                                 f'runs={len(recs)} features={feats} detail={str(v.get("detail"))[:200]}')
                out_lines.append(f'VIOLATION property={prop} replay={path}')
    for fid, (kf, cnt, path) in sorted(known_hits.items()):
        out_lines.append(f'KNOWN-FINDING: property={prop} {fid}: {kf["description"]} (runs={cnt}, replay={path})')

    wall = time.time() - t0
    # ---- evidence
    comp = engine.components()
    batch_digest = hashlib.sha256(canon(sorted(agg['digests'], key=lambda x: x[0])).encode()).hexdigest()
    cov = {
        'evaluations': agg['runs'],
        'distinct_nontrivial': len(agg['nontrivial']),
        'rule': engine.rule(),
        'samples': agg['samples'][:2] if agg['samples'] else [r['scenario'] for r in agg['viol'][:1]],
        'steps': agg['steps'],
        'runs_planned': nruns,
        'truncated_by_wall_cap': info['truncated'],
        'runs_per_hour': int(agg['runs'] / max(wall, 1e-6) * 3600),
        'seeds_per_hour': int(agg['runs'] / max(wall, 1e-6) * 3600),
        'simulated_time': 'not applicable: Darr has no clocks, timers or deadlines; progress is counted in logical steps',
        'faults_fired': dict(sorted(agg['faults'].items())),
        'probes': dict(sorted(agg['probes'].items())),
        'distinct_abstract_transitions': len(agg['transitions']),
        'distinct_scenarios': len(agg['sdigs']),
        'components': comp,
        'harness_errors': len(agg['herr']),
        'timeouts': len(agg['tout']),
        'violating_runs': len(agg['viol']),
        'known_finding_hits': {k: v[1] for k, v in known_hits.items()},
        'batch_digest': batch_digest,
        'bounded_exhaustive_sequences_run': agg.get('enumerated', 0),
        'bounded_exhaustive_sequences_total': _enum_total(engine),
        'jobs': jobs,
        'darr_tree': repo_rev(),
    }
    for k, v in agg['extra'].items():
        cov[k] = sorted(v) if isinstance(v, set) else v
    if agg.get('cov'):
        ex = core.executable_lines()
        per = {}
        for item in agg['cov']:
            f, l = item.rsplit(':', 1)
            per.setdefault(f, set()).add(int(l))
        cov['darr_line_coverage_in_sampled_runs'] = {
            'sampled_runs': agg.get('cov_runs', 0),
            'files': {f: f'{len(per.get(f, set()) & ex[f])}/{len(ex[f])}' for f in sorted(ex)},
            'note': 'lines of /repo/darr executed by the measured runs of this check (sys.monitoring); reach, not a verdict'}
    cov.update(engine.extra_coverage(agg) if hasattr(engine, 'extra_coverage') else {})
    ev = {'property_id': prop, 'tier': tier, 'seed': verif_seed, 'level': engine.level, 'coverage': cov,
          'assumptions': engine.assumptions() if hasattr(engine, 'assumptions') else [],
          'wall_s': round(wall, 2), 'violations': n_viol}
    if write_evidence:
        evidence_path = evidence_path or os.path.join(core.VERIF, 'evidence', f'{prop}.json')
        os.makedirs(os.path.dirname(evidence_path), exist_ok=True)
        with open(evidence_path, 'w') as f:
            json.dump(ev, f, indent=1, sort_keys=True, default=str)

    if not quiet:
        print(f'{prop} tier={tier} seed={verif_seed} runs={agg["runs"]}/{nruns} steps={agg["steps"]} '
              f'held={agg["held"]} violating_runs={len(agg["viol"])} harness_errors={len(agg["herr"])} '
              f'timeouts={len(agg["tout"])} transitions={len(agg["transitions"])} wall={wall:.1f}s '
              f'digest={batch_digest[:12]}')
        if agg['faults']:
            # which fault kinds really fired in this batch (a kind stuck at 0 means its seam no longer reaches the code)
            print('  faults fired: ' + ' '.join(f'{k}={v}' for k, v in sorted(agg['faults'].items())))
        for l in out_lines:
            print(l)
    code = 0
    if agg['herr'] or agg['tout']:
        for r in (agg['herr'] + agg['tout'])[:3]:
            print(f'HARNESS-{"TIMEOUT" if r in agg["tout"] else "ERROR"} run={r.get("i")}: {str(r.get("detail"))[-1500:]}')
        code = 2
    if n_viol:
        code = 1
    if code == 0 and not quiet:
        print(f'HELD property={prop}')
    return code, ev, agg


def main(argv=None):
    ap = argparse.ArgumentParser()
    ap.add_argument('prop', nargs='?')
    ap.add_argument('--tier', default=os.environ.get('VERIF_TIER', 'quick'))
    ap.add_argument('--runs', type=int, default=0)
    ap.add_argument('--start', type=int, default=0)
    ap.add_argument('--jobs', type=int, default=int(os.environ.get('VERIF_JOBS', '0')) or min(16, os.cpu_count() or 4))
    ap.add_argument('--wall', type=float, default=0)
    ap.add_argument('--seed', type=int, default=None)
    ap.add_argument('--replay')
    ap.add_argument('--setup', action='store_true')
    ap.add_argument('--selftest')
    ap.add_argument('--no-evidence', action='store_true')
    a = ap.parse_args(argv)
    seed = a.seed if a.seed is not None else int(os.environ.get('VERIF_SEED', '0') or 0)
    try:
        core.import_darr()
        import numpy  # noqa
        if a.setup:
            import darr
            print(f'setup ok: darr from {darr.__file__}, numpy {numpy.__version__}, sandbox root under {core._SHM}')
            return 0
        if a.selftest:
            from . import selftest
            return selftest.main(a.selftest, a)
        if not a.prop:
            ap.error('property id required')
        if a.replay:
            return do_replay(a.prop, a.replay)
        code, _, _ = run_check(a.prop, a.tier, seed, a.runs, a.jobs, a.wall, start=a.start,
                               write_evidence=not a.no_evidence)
        return code
    finally:
        core.drop_sandbox_root()


if __name__ == '__main__':
    sys.exit(main())
