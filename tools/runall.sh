#!/bin/bash
# run every check of the given tier; print one line per property
cd "$(dirname "$0")/.."
tier=${1:-quick}
for i in $(seq -w 1 20); do
  p=C$i
  s=$(date +%s)
  out=$(./check $p --tier $tier 2>&1)
  code=$?
  e=$(date +%s)
  echo "$p exit=$code wall=$((e-s))s $(echo "$out" | head -1 | cut -c1-160)"
  if [ $code -ne 0 ]; then echo "$out" | grep -E "VIOLATION|HARNESS|KNOWN" | head -5; fi
done
