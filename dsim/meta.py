"""M-meta: metadata value specs, model transitions and the accessor oracle."""
import json
import os
import numpy as np
from .oracles import json_normalise, json_equal

KEYS = ['a', 'b', 'fs', 'ключ']
SCALAR_KINDS = ['int', 'float', 'nan', 'inf', 'ninf', 'str', 'ustr', 'ctrl', 'bool', 'none',
                'npint', 'npfloat', 'nparray', 'bytes', 'bigint']
NESTED_KINDS = ['list', 'dict', 'tuple']
BAD_KINDS = ['obj', 'set', 'complex']


def gen_value(rng, depth=0, allow_bad=False, with_bytes=False):
    kinds = list(SCALAR_KINDS)
    if depth < 2:
        kinds += NESTED_KINDS
    if allow_bad:
        kinds = BAD_KINDS
    k = rng.choice(kinds)
    if k == 'int':
        return {'k': k, 'v': rng.randint(-5, 5)}
    if k == 'bigint':
        return {'k': k, 'v': rng.choice([2 ** 63, -2 ** 70, 10 ** 30])}
    if k == 'float':
        return {'k': k, 'v': rng.choice([0.5, -1.25, 33.3, 1e300, 5e-324, -0.0])}
    if k in ('nan', 'inf', 'ninf', 'none', 'obj', 'set', 'complex'):
        return {'k': k}
    if k == 'str':
        return {'k': k, 'v': rng.choice(['', 'x', 'hello world', '2017-08-31T17:00:00'])}
    if k == 'ustr':
        return {'k': k, 'v': rng.choice(['é', '日本語', '😀', 'ß​', 'naïve café', '\u00a0\u2028'])}
    if k == 'ctrl':
        return {'k': k, 'v': rng.choice(['a\nb', 'tab\t', '\x00', 'q"uo\\te', '\x1f\x7f'])}
    if k == 'bool':
        return {'k': k, 'v': rng.random() < 0.5}
    if k == 'npint':
        return {'k': k, 'v': rng.randint(-100, 100), 't': rng.choice(['int8', 'int32', 'int64', 'uint16'])}
    if k == 'npfloat':
        return {'k': k, 'v': rng.choice([0.5, -2.0, 1.5]), 't': rng.choice(['float16', 'float32', 'float64'])}
    if k == 'nparray':
        return {'k': k, 'v': [rng.randint(0, 9) for _ in range(rng.randint(0, 4))],
                't': rng.choice(['int16', 'float64', 'uint8']), 'two_d': rng.random() < 0.3}
    if k == 'bytes':
        # bytes are a value kind of C13 only (its quantifier names them; whether they are stored as text or
        # refused as non-serialisable is left open, see apply_meta_op); everywhere else they are drawn as text
        return {'k': k if with_bytes else 'str', 'v': rng.choice(['abc', '', 'zoé'])}
    if k in ('list', 'tuple'):
        return {'k': k, 'v': [gen_value(rng, depth + 1, with_bytes=with_bytes) for _ in range(rng.randint(0, 3))]}
    if k == 'dict':
        return {'k': k, 'v': {rng.choice(['x', 'y', 'ž']): gen_value(rng, depth + 1, with_bytes=with_bytes)
                              for _ in range(rng.randint(0, 2))}}
    raise ValueError(k)


def build_value(s):
    k = s['k']
    if k in ('int', 'bigint', 'float', 'str', 'ustr', 'ctrl', 'bool'):
        return s['v']
    if k == 'nan':
        return float('nan')
    if k == 'inf':
        return float('inf')
    if k == 'ninf':
        return float('-inf')
    if k == 'none':
        return None
    if k == 'npint':
        if s['t'].startswith('u'):
            return np.dtype(s['t']).type(abs(s['v']))
        return np.dtype(s['t']).type(s['v'])
    if k == 'npfloat':
        return np.dtype(s['t']).type(s['v'])
    if k == 'nparray':
        a = np.array(s['v'], dtype=s['t'])
        return a.reshape(1, -1) if s.get('two_d') else a
    if k == 'bytes':
        return s['v'].encode('utf-8')
    if k == 'list':
        return [build_value(x) for x in s['v']]
    if k == 'tuple':
        return tuple(build_value(x) for x in s['v'])
    if k == 'dict':
        return {kk: build_value(x) for kk, x in s['v'].items()}
    if k == 'obj':
        return object()
    if k == 'set':
        return {1, 2}
    if k == 'complex':
        return 1 + 2j
    raise ValueError(k)


def has_bytes(spec):
    """does a value spec (or a dict of value specs) contain a bytes value anywhere?"""
    if isinstance(spec, dict) and 'k' in spec and isinstance(spec['k'], str):
        if spec['k'] == 'bytes':
            return True
        v = spec.get('v')
        if spec['k'] in ('list', 'tuple'):
            return any(has_bytes(x) for x in v)
        if spec['k'] == 'dict':
            return any(has_bytes(x) for x in v.values())
        return False
    if isinstance(spec, dict):
        return any(has_bytes(x) for x in spec.values())
    return False


def gen_dict(rng, n=None, allow_bad=False, with_bytes=False):
    n = rng.randint(0, 3) if n is None else n
    d = {}
    for _ in range(n):
        d[rng.choice(KEYS)] = gen_value(rng, with_bytes=with_bytes)
    if allow_bad:
        d[rng.choice(KEYS)] = gen_value(rng, allow_bad=True)
    return d


def build_dict(spec):
    return {k: build_value(v) for k, v in spec.items()}


def gen_meta_op(rng, with_bad=True, with_bytes=False):
    r = rng.random()
    if r < 0.22:
        return {'op': 'meta_set', 'key': rng.choice(KEYS), 'value': gen_value(rng, with_bytes=with_bytes)}
    if r < 0.40:
        return {'op': 'meta_update', 'd': gen_dict(rng, with_bytes=with_bytes), 'kw': rng.random() < 0.25}
    if r < 0.47:
        return {'op': 'meta_update', 'd': {}, 'kw': False}
    if r < 0.62:
        return {'op': 'meta_pop', 'key': rng.choice(KEYS), 'default': rng.choice([None, {'k': 'none'}, {'k': 'int', 'v': 7}])}
    if r < 0.72:
        return {'op': 'meta_popitem'}
    if r < 0.84:
        return {'op': 'meta_del', 'key': rng.choice(KEYS)}
    if r < 0.92 and with_bad:
        return {'op': 'meta_update', 'd': gen_dict(rng, allow_bad=True, with_bytes=with_bytes), 'kw': False, 'bad': True}
    return {'op': 'meta_set', 'key': rng.choice(KEYS), 'value': gen_value(rng, with_bytes=with_bytes)}


def state_diff(pre, post):
    """first difference between two snapshots of an array directory where metadata.json is compared by
    meaning (a refused or no-op call may rewrite it in another layout), everything else byte for byte"""
    from .oracles import snap_diff
    d = snap_diff({k: v for k, v in pre.items() if k != 'metadata.json'},
                  {k: v for k, v in post.items() if k != 'metadata.json'})
    if d:
        return d
    a, b = pre.get('metadata.json'), post.get('metadata.json')
    if (a is None) != (b is None):
        return ('removed' if b is None else 'added') + ':metadata.json'
    if a is not None and a != b:
        try:
            ja, jb = json.loads(a[2]), json.loads(b[2])
        except Exception:
            return 'changed:metadata.json (not parsable)'
        if not json_equal(ja, jb):
            return 'changed:metadata.json'
    return None


META_OPS = ('meta_set', 'meta_update', 'meta_pop', 'meta_popitem', 'meta_del')


def apply_meta_op(op, md, model):
    """Apply a metadata op to the real MetaData object `md` and to the model
    dict (in place).  Returns (outcome, problem) where outcome is a short
    class string and problem is None or (oracle, signature, detail)."""
    kind = op['op']
    exc = None
    ret = None
    try:
        if kind == 'meta_set':
            md[op['key']] = build_value(op['value'])
        elif kind == 'meta_update':
            d = build_dict(op['d'])
            if op.get('kw') and all(k.isascii() and k.isidentifier() for k in d):
                md.update(**d)
            else:
                md.update(d)
        elif kind == 'meta_pop':
            if op.get('default') is None:
                ret = md.pop(op['key'])
            else:
                ret = md.pop(op['key'], build_value(op['default']))
        elif kind == 'meta_popitem':
            ret = md.popitem()
        elif kind == 'meta_del':
            del md[op['key']]
    except Exception as e:   # noqa
        exc = e
    # model
    if kind in ('meta_set', 'meta_update'):
        d = {op['key']: build_value(op['value'])} if kind == 'meta_set' else build_dict(op['d'])
        try:
            nd = json_normalise(d)
        except TypeError:
            if exc is None:
                return 'accepted_bad', ('meta.nonserialisable', 'no_exception', 'update with non-serialisable value did not raise')
            if not isinstance(exc, TypeError):
                return 'raised', ('meta.nonserialisable', f'wrong_class:{type(exc).__name__}', str(exc)[:200])
            return 'rejected', None       # caller checks unchanged
        if exc is not None:
            if isinstance(exc, TypeError) and has_bytes(op['value'] if kind == 'meta_set' else op['d']):
                # bytes: either stored as text or refused like any non-serialisable value (then nothing may change)
                return 'rejected', None
            return 'raised', ('meta.update', f'raises:{type(exc).__name__}', str(exc)[:200])
        model.update(nd)
        return 'ok', None
    if kind == 'meta_pop':
        k = op['key']
        if k in model:
            if exc is not None:
                return 'raised', ('meta.pop', f'present_raises:{type(exc).__name__}', str(exc)[:200])
            exp = model.pop(k)
            if not json_equal(ret, exp):
                return 'ok', ('meta.pop', 'wrong_value', f'{ret!r} != {exp!r}')
            return 'ok', None
        if op.get('default') is not None:
            if exc is not None:
                return 'raised', ('meta.pop', f'default_raises:{type(exc).__name__}', str(exc)[:200])
            exp = build_value(op['default'])
            if not (ret is exp or ret == exp):
                return 'ok', ('meta.pop', 'default_not_returned', f'{ret!r}')
            return 'default', None
        if not isinstance(exc, KeyError):
            return 'raised' if exc else 'ok', ('meta.pop', f'missing_nodefault:{type(exc).__name__ if exc else "no_exception"}', '')
        return 'keyerror', None
    if kind == 'meta_del':
        k = op['key']
        if k in model:
            if exc is not None:
                return 'raised', ('meta.del', f'present_raises:{type(exc).__name__}', str(exc)[:200])
            del model[k]
            return 'ok', None
        if not isinstance(exc, KeyError):
            return 'raised' if exc else 'ok', ('meta.del', f'missing:{type(exc).__name__ if exc else "no_exception"}', '')
        return 'keyerror', None
    if kind == 'meta_popitem':
        if not model:
            if exc is None:
                return 'ok', ('meta.popitem', 'empty:no_exception', '')
            return 'keyerror', None        # nothing to pop: it raises (KeyError is named only for pop and del)
        if exc is not None:
            return 'raised', ('meta.popitem', f'nonempty_raises:{type(exc).__name__}', str(exc)[:200])
        try:
            k, v = ret
        except Exception:
            return 'ok', ('meta.popitem', 'not_a_pair', repr(ret)[:100])
        if k not in model or not json_equal(v, model[k]):
            return 'ok', ('meta.popitem', 'not_an_item', repr(ret)[:100])
        del model[k]
        return 'ok', None
    raise ValueError(kind)


def check_meta(md, model, metapath, who, content_only=False):
    """Every read accessor of MetaData object `md` equals the model; file
    exists iff model non-empty.  Returns None or (oracle, signature, detail).
    content_only: just dict(md) == model (what "identical metadata" needs; the accessor and file clauses are C13's)."""
    try:
        d = dict(md)
    except Exception as e:
        return (f'meta.{who}', f'dict_raises:{type(e).__name__}', str(e)[:200])
    if not json_equal(d, model):
        return (f'meta.{who}', 'dict_mismatch', f'{d!r} != {model!r}'[:300])
    if content_only:
        return None
    try:
        if len(md) != len(model):
            return (f'meta.{who}', 'len', f'{len(md)} != {len(model)}')
        if sorted(md.keys()) != sorted(model.keys()):
            return (f'meta.{who}', 'keys', '')
        if not json_equal(dict(md.items()), model):
            return (f'meta.{who}', 'items', '')
        vals = list(md.values())
        if len(vals) != len(model):
            return (f'meta.{who}', 'values_len', '')
        for k in list(model) + ['__nope__']:
            if (k in md) != (k in model):
                return (f'meta.{who}', 'contains', k)
            g = md.get(k)
            if k in model:
                if not json_equal(g, model[k]) or not json_equal(md[k], model[k]):
                    return (f'meta.{who}', 'get_or_getitem', k)
            else:
                if g is not None or md.get(k, 5) != 5:
                    return (f'meta.{who}', 'get_default', k)
                try:
                    md[k]
                    return (f'meta.{who}', 'getitem_missing_no_keyerror', k)
                except KeyError:
                    pass
    except Exception as e:
        return (f'meta.{who}', f'accessor_raises:{type(e).__name__}', str(e)[:200])
    ex = os.path.exists(metapath)
    if ex != bool(model):
        return ('meta.file', 'exists_but_empty' if ex else 'missing_but_nonempty', '')
    if ex:
        try:
            with open(metapath, 'r', encoding='utf-8') as f:
                raw = json.load(f)
        except Exception as e:
            return ('meta.file', f'unparsable:{type(e).__name__}', '')
        if not json_equal(raw, model):
            return ('meta.file', 'content_mismatch', '')
    return None


C13_ALPHABET = [
    {'op': 'meta_set', 'key': 'a', 'value': {'k': 'int', 'v': 1}},
    {'op': 'meta_set', 'key': 'a', 'value': {'k': 'dict', 'v': {'x': {'k': 'list', 'v': [{'k': 'nan'}, {'k': 'none'}]}}}},
    {'op': 'meta_set', 'key': 'b', 'value': {'k': 'nparray', 'v': [1, 2], 't': 'int16', 'two_d': False}},
    {'op': 'meta_update', 'd': {}, 'kw': False},
    {'op': 'meta_update', 'd': {'a': {'k': 'bool', 'v': True}, 'fs': {'k': 'ustr', 'v': 'é'}}, 'kw': True},
    {'op': 'meta_pop', 'key': 'a', 'default': None},
    {'op': 'meta_pop', 'key': 'a', 'default': {'k': 'none'}},
    {'op': 'meta_pop', 'key': 'b', 'default': {'k': 'int', 'v': 7}},
    {'op': 'meta_popitem'},
    {'op': 'meta_del', 'key': 'a'},
    {'op': 'reopen', 'mode': 'r+'},
    {'op': 'meta_update', 'd': {'a': {'k': 'set'}}, 'kw': False, 'bad': True},
]
