#!/venv/bin/python
"""Regenerate /verif/MANIFEST.json from the table below."""
import json
import os
import sys

HERE = os.path.dirname(os.path.dirname(os.path.abspath(__file__)))

TECH = 'deterministic simulation with fault injection: seeded op/fault sequences against an executable reference model'

P = {
 'C01': dict(cat='exploration', tech='seeded input generation against a NumPy reference model with restart (degenerate simulation: no fault or schedule in the statement)',
             text='Seeded generator over input form x 13 types x byte order x layout x rank x dtype argument x chunklen x fill, each creation re-done under further chunk lengths and re-read through a fresh handle; bitwise equality with the NumPy reference. Sampling evidence, not proof; the statement quantifies over inputs only, so the simulator contributes generation, restart and knob variation.',
             note='trusts NumPy (np.asarray/astype/np.full) as reference semantics and tmpfs as the disk', ref='5 C01, 6'),
 'C02': dict(cat='exploration', tech=TECH + '; independent format decoder as peer reader after every step',
             text='Array histories (append, iterappend, assignment, truncate, metadata, overwrite re-creation, restart); after every completed step a decoder that shares no code with Darr reconstructs the array from the three files and must agree bit for bit (dtype, shape, element bits) with what the live and a fresh handle report; size equation and the six keys checked. A call whose acceptance differs from the reference model ends the history (the subject of C03) after the decoder has looked at what it left.',
             note='decoder implements the documented format from its own 13x2 type table; trusts NumPy frombuffer', ref='5 C02'),
 'C03': dict(cat='exploration', tech=TECH,
             text='Seeded op lists over append/iterappend/setitem/truncate/mode/restart incl. rejected variants from empty and non-empty 1-3-D starts in all 26 dtype/byte-order cells; model equality on live and fresh handle after every step, prefix-byte invariants on the raw file, rejected calls leave the state unchanged.',
             note='NumPy concatenate/assignment/slicing as reference semantics', ref='5 C03'),
 'C04': dict(cat='exploration', tech=TECH,
             text='Seeded ragged histories (create_raggedarray/asraggedarray, append, iterappend, truncate, mode, restart, bad indices, iter_arrays over any start/end/step - where the range and the list-slicing reading differ either is accepted); every subarray index in [-len-1, len] read on live and fresh handle after every step against a list-of-ndarrays model; stored index type checked.',
             note='np.asarray(item, dtype) as item semantics; bool indices not generated', ref='5 C04'),
 'C05': dict(cat='exploration', tech=TECH + '; independent ragged decoder as peer reader after every step',
             text='The C04 histories; after every completed step an independent decoder checks both sub-arrays (C02 sense), the index invariants (first start 0, contiguous, start<=end, last end = N), recomputes every subarray from values[start:end], compares it with what a fresh handle reports, and checks the top-level descriptor (len, size, atom, numtype, darrobject).',
             note='decoder shares no code with Darr', ref='5 C05'),
 'C08': dict(cat='exploration', tech=TECH + '; differential README regeneration on a copy',
             text='Array and ragged histories with metadata creation/deletion and overwrite re-creation, biased to cross 5/6/7 subarrays; after every step each README (array, ragged, values, indices) must be byte-identical to what Darr regenerates from a fresh handle on a copy of the directory, must contain every offered readcode() snippet, the dimensions/length and the subarray count, every listed subarray must exist with its current length, and metadata.json is mentioned iff metadata exist.',
             note='uses the private _update_readmetxt of a fresh handle on a copy as the regeneration entry point (absence = HARNESS-ERROR)', ref='5 C08'),
 'C09': dict(cat='fault_enumeration', tech=TECH + '; kernel RLIMIT_FSIZE write refusal at byte offsets, ENOSPC seam on the n-th tofile, failing iterables',
             text='Start state from a seeded prefix history (incl. empty by creation and by truncation), then one append/iterappend of 0-6 chunks under one sampled fault (one call in five inside an open_array() block after successful appends in the same block): iterable raises an Exception or a non-Exception BaseException / yields a chunk of bad shape, bad rank (also without elements) or unconvertible type at position k; RLIMIT_FSIZE at chunk boundary +-1, mid element, mid row (through the real numpy tofile + stdio path); ENOSPC after b bytes of the n-th tofile; fault-free control. Oracle: raised, opens, decodes, equals original ++ completed chunks, live = fresh (a fault-free call that raises must leave some whole-chunk prefix).',
             note='fault positions are sampled, not enumerated exhaustively; RLIMIT_FSIZE is process-wide so the data file is made the only file above the limit', ref='5 C09'),
 'C10': dict(cat='fault_enumeration', tech=TECH + '; kernel RLIMIT_FSIZE aimed at values or indices file, ENOSPC seam per file, index overflow, failing iterables',
             text='As C09 for RaggedArray.append/iterappend: iterable faults, index overflow with int8/uint8/int16 index types, RLIMIT_FSIZE aimed at the values file or (1100+ one-byte subarrays) at the indices file, ENOSPC on the n-th values write or n-th index-row write; control batch. Oracle: raised, opens, independent ragged decoder accepts, subarrays = original ++ completely appended, live = fresh.',
             note='as C09', ref='5 C10'),
 'C11': dict(cat='exploration', tech=TECH + '; mode-switch histories with byte snapshots',
             text="Array and RaggedArray histories with a mode dimension ('r' by default open, at creation, by assignment after switches); in every 'r' state each mutating entry point (setitem, append, iterappend, truncate, delete, metadata update/setitem/pop/popitem/del) is fired: must raise (unless a genuine no-op) and leave the directory byte-identical; a call that had to be refused must then succeed in 'r+' and match the model.",
             note='byte snapshot of the whole array directory; delete ends the run', ref='5 C11'),
 'C13': dict(cat='exploration', tech=TECH,
             text='Metadata histories on Array and RaggedArray from the starts {no file, metadata at creation, empty dict at creation}: setitem, update (dict/kwargs/empty/non-serialisable; bytes may be stored as text or refused), pop with and without default, popitem, del, restart; every read accessor on live and fresh handle equals the JSON round-trip of a model dict; file exists iff non-empty; exception classes as stated; refused and no-op calls leave metadata.json unchanged in meaning and every other file byte-identical.',
             note='own JSON normaliser; NaN compared NaN-aware', ref='5 C13'),
 'C06': dict(cat='exploration', tech=TECH.replace('op/fault sequences', 'array states') + '; emitted snippets as reader peers: CPython exec (L1) and stub interpreters (L2)',
             text='Runs 0-311 enumerate 26 dtype cells x rank 1-4 x 3 path modes against all 12 languages; further runs add length-1 axes, 0-row arrays and arrays reached by append/truncate. numpy/numpymemmap/python/darr snippets are really executed in the requested path mode and compared bit for bit; the other 8 languages are interpreted by stub interpreters and compared exactly after widening; offer/withhold is checked against the tables parsed from docs/readcode.rst; a byte snapshot shows that running code changes no file (also for empty arrays).',
             note='L2 rests on stub interpreters written from the documented semantics of R, Matlab/Octave, Scilab, Julia, IDL, Mathematica, Maple (no real interpreter or manual available offline): trusted base, see DESIGN.md Appendix B', ref='5 C06, App. B'),
 'C07': dict(cat='exploration', tech=TECH.replace('op/fault sequences', 'ragged states') + '; emitted snippets as reader peers: CPython exec (L1) and stub interpreters (L2)',
             text='One ragged array per run over value dtype x index type x atom rank 0-3 x subarray counts/lengths incl. 0 (and arrays without values), optionally after append/truncate; numpymemmap and darr snippets executed for real for every k plus the example statement; the 7 other languages interpreted by stubs for every k under their index origin, end inclusiveness and axis order; example must bind the stated existing subarray; withholding checked against the docs tables with the R int64-index allowance; running code changes no file.',
             note='as C06', ref='5 C07, App. B'),
 'C12': dict(cat='exploration', tech=TECH + '; hold list re-verified after every later operation; fork per run so death by signal is observed',
             text='Index expressions from a grammar (ints, slices with steps, Ellipsis, None, tuples, integer arrays, boolean masks incl. wrong length, non-index objects) read and assigned inside/outside open_array() contexts on rank 1-4 arrays incl. 0-row and multi-MB ones; results equal NumPy on the model or raise the same class; NumPy integer scalars as indices; open_array(accessmode=r+) on a read-only object; an invalid access mode leaves nothing open whether refused or not; iterations left early; every returned value is held and re-verified after every later append/assignment/truncate/delete; assignments are visible to a fresh handle and in the raw file; no descriptor or map is left open after any operation.',
             note='NumPy indexing on an in-memory copy as reference; /proc/self/fd and /proc/self/maps as leak oracle', ref='5 C12'),
 'C14': dict(cat='exploration', tech='saturating enumeration of the small frame-parameter space plus seeded single-generator schedules with interleaved writes (partly degenerate: the arithmetic clauses are a pure function)',
             text='Runs 0-13 enumerate every (chunklen, stepsize, start, end, remainder) for n<=12 for iterindices (and a slice of it for iterchunks) and fit_frames for totallen<=16 against a reference written from the statement; further runs: one iterchunks generator with writes between next() calls, early close/abandon, held chunks re-verified (leaks and element reads are probes here, verdicts in C12/C19); invalid parameter combinations must raise ValueError (non-integral floats are called, not judged); large values.',
             note='frames reference is a 6-line loop derived from the statement, independent of fit_frames', ref='5 C14'),
 'C15': dict(cat='exploration', tech=TECH + '; two directories per run with independence snapshots',
             text='Source from a prefix history (Array incl. 0 rows, RaggedArray incl. no subarrays, nested metadata), copy(dtype in {None, 26 cells}, chunklen, accessmode), then mutations on either side (append, setitem, truncate, metadata, delete) with a byte snapshot of the other side before/after and both sides checked against their own models; archive() for xz/gz/bz2 is extracted with tarfile and compared byte for byte, existing archives are refused unless overwrite, unknown compression type raises and writes nothing.',
             note='astype on exactly representable values as cast reference; mode bits of extracted files not compared', ref='5 C15'),
 'C16': dict(cat='exploration', tech=TECH + '; environment faults: foreign files/dirs/symlinks planted by the simulator',
             text='Target path occupied by Array(+metadata), larger Array, RaggedArray, plain dir, plain file or nothing; 0-3 foreign entries (file, nested dir, symlink to file/dir outside, directory named metadata.json, hidden file, empty dir) at top/values/indices; one of delete_array, delete_raggedarray (object/str/Path, right and wrong kind, also through a stale object whose path was deleted and reused) or the seven creating calls x overwrite x metadata {None, {}, dict} (their source may fail part-way); after a successful overwrite=True the Darr-owned files equal those of the same call on a free path (no stale metadata.json); byte snapshot of the parent directory: foreign entries always survive, wrong kind -> TypeError and nothing changed, overwrite=False -> raise and nothing changed, complete delete leaves nothing.',
             note='snapshot of the parent covers symlink targets; unlink order inside delete_* (set iteration) does not influence verdicts', ref='5 C16'),
 'C17': dict(cat='fault_enumeration', tech=TECH + '; crash points at every executed source line of Darr (sys.settrace) with materialised post-crash directories, plus synthesised torn writes',
             text='One mutating op (append, iterappend of 1-4 chunks, iterappend with failing iterable, truncate, metadata set/update/pop/del; Array and RaggedArray; empty and non-empty starts) runs under a line tracer; every distinct on-disk state between two executed lines is copied (= what SIGKILL there leaves), and for every single-file transition torn variants are synthesised (zero length, half of the appended tail aligned and mid-element, prefixes of rewritten text, and new-prefix + old-tail mixtures for files that an audit hook saw opened for writing without O_TRUNC; none for files replaced by rename); each directory is opened by a fresh handle and must raise or show pre-state, post-state or pre-state plus a whole number of chunks/subarrays.',
             note='crash points are exhaustive for the traced execution at line granularity; scenarios are sampled; power-loss reordering across files is not modelled', ref='5 C17'),
 'C18': dict(cat='fault_enumeration', tech=TECH + '; stored-state corruption of descriptor fields and data-file length',
             text='Valid directory from a short history (1-D, N-D, 0-row, ragged sub-arrays and top level), then one corruption from the listed classes (descriptor missing / not JSON / not a dict / required key removed / unknown numtype, byteorder, arrayorder tokens (near misses, foreign words, types outside the 13, other JSON types; no aliases that NumPy or a case-insensitive reader would resolve to a documented value) / invalid shapes / data length off by -all..+k incl. non-multiples and 0-row arrays / numtype of another item size); Array(), RaggedArray(), darr.open() must raise; delete/truncate by path must raise TypeError and change nothing.',
             note='only the invalid classes the statement lists are generated; consistent alternative descriptions are not', ref='5 C18'),
 'C19': dict(cat='exploration', tech=TECH.replace('op/fault sequences', 'schedules') + ': seeded interleavings of generator and context actors on one shared memory map, one forked child per schedule',
             text='Up to three iterchunks generators with different chunk parameters and two nested open_array() contexts on one 4-8 MB Array; the seeded schedule starts, advances, closes and abandons generators, enters and exits contexts (actors may ask for different access modes; 30 % of runs use a read-only handle), reads and writes elements, injects a failing open of the data file, then finishes the survivors in a seeded order; oracle: child exits normally (death by signal is a violation), every chunk/element equals the model at that moment, held chunks stay valid, every write is in a fresh handle and the raw file, no descriptor/map remains.',
             note='schedules are sampled (length <= 14 + finishing order), not enumerated; ownership patterns reached are reported', ref='5 C19'),
 'C20': dict(cat='exploration', tech=TECH + '; name spelling as the varied dimension (degenerate part) over call histories',
             text='Histories of DataDir calls on Array/RaggedArray: attempts on each protected name (ragged: values, indices and paths below them) through write_txt, write_jsonfile, write_jsondict, update_jsondict, delete_files and open_file in 9 writing modes under 10 spellings (the array itself held through an absolute or a relative path) must raise OSError and leave the parent directory byte-identical; for user names write_txt/read_txt and write_jsondict/read_jsondict round-trip and honour overwrite, delete_files removes exactly the named files, and no call on a user name changes a file of the array (write_jsonfile, update_jsondict and open_file on user names are made but only that is judged).',
             note="PYTHONUTF8=1 so that read_txt does not depend on the locale; texts containing '\\r' are not generated (universal-newline translation on read)", ref='5 C20'),
}

BUILT = ['C%02d' % i for i in range(1, 21)]

ALL = ['C%02d' % i for i in range(1, 21)]


def main():
    checks = []
    for pid in ALL:
        if pid not in BUILT:
            continue
        d = P[pid]
        checks.append({
            'property_id': pid,
            'quick_cmd': f'./check {pid} --tier quick',
            'thorough_cmd': f'./check {pid} --tier thorough',
            'evidence_file': f'/verif/evidence/{pid}.json',
            'replay_cmd_template': f'./check {pid} --replay {{path}}',
            'engine': 'dsim',
            'level_claimed': {'category': d['cat'], 'text': d['text'], 'design_ref': 'DESIGN.md section ' + d['ref']},
            'level_note': d['note'],
            'technique': d['tech'],
        })
    na = [{'property_id': pid, 'reason': 'check not yet built in this commit (work in progress; planned per DESIGN.md section 5)'}
          for pid in ALL if pid not in BUILT]
    m = {
        'version': 1,
        'setup_cmd': './check --setup',
        'hooks': {'guard': 'DARR_DSIM', 'enable': 'no source hooks: all seams are outside /repo (sandbox directory, RLIMIT_FSIZE, rebinding Array._checkarrayforappend in the harness process, builtins.open/io.open replaced for one access, watched iterables, sys.settrace, sys.addaudithook, /proc/self/fd and /proc/self/maps)',
                  'baseline_off_cmd': 'cd /repo && /venv/bin/python -m pytest -ra -q -p no:cacheprovider --timeout=900 --continue-on-collection-errors',
                  'source_commits': [], 'add_only': True},
        'engines': [{'name': 'dsim', 'path': '/verif/dsim', 'serves_properties': BUILT,
                     'kind_free_text': 'seeded deterministic simulator: op/fault lists as JSON, fork-per-run, reference models, ddmin shrinking, replay files'}],
        'checks': checks,
        'not_applicable': na,
        'notes': 'All checks import darr from /repo working tree (VERIF_REPO overrides). fix: commits in /repo repair genuine defects found by these checks; see known_findings.json and DESIGN.md section 9.',
    }
    with open(os.path.join(HERE, 'MANIFEST.json'), 'w') as f:
        json.dump(m, f, indent=1)
    print('wrote MANIFEST.json with', len(checks), 'checks;', len(na), 'not yet built')


if __name__ == '__main__':
    main()
