"""Read-code engines (C06 Array, C07 RaggedArray).  The generated snippets are
*reader peers* that talk to Darr only through the disk.  Layer L1 executes the
Python-family snippets for real (CPython exec); layer L2 interprets the other
languages with the stub interpreters in dsim/readers/foreign.py (trusted base,
see DESIGN.md Appendix B)."""
import copy
import gc
import os
import re
import numpy as np

from ..core import Engine, import_darr, HarnessError, REPO
from .. import data as D
from ..oracles import snapshot, snap_diff
from ..readers import foreign as F
from .arrayhist import Viol

ARRAY_LANGS_ALL = ['darr', 'idl', 'julia_ver0', 'julia_ver1', 'mathematica', 'matlab', 'maple', 'numpy',
                   'numpymemmap', 'python', 'R', 'scilab']
RAGGED_LANGS_ALL = ['darr', 'idl', 'julia', 'maple', 'mathematica', 'matlab', 'numpymemmap', 'R', 'scilab']
COL = {'idl': 'IDL', 'julia_ver0': 'Julia', 'julia_ver1': 'Julia', 'julia': 'Julia', 'maple': 'Maple',
       'mathematica': 'Mathematica', 'matlab': 'Matlab', 'numpy': 'Numpy', 'numpymemmap': 'Numpy', 'python': 'Python',
       'R': 'R', 'scilab': 'Scilab'}
SHAPES = {1: [5], 2: [2, 3], 3: [2, 3, 4], 4: [2, 3, 4, 5]}


def parse_docs_tables():
    """The two compatibility tables of docs/readcode.rst -> (types, ndim)."""
    p = os.path.join(REPO, 'docs', 'readcode.rst')
    if not os.path.exists(p):          # a checkout that carries only the package: use the tables of /repo
        p = '/repo/docs/readcode.rst'
    with open(p, encoding='utf-8') as f:
        lines = f.read().splitlines()
    tables = []
    cur = None
    for ln in lines:
        if ln.startswith('|'):
            cells = [c.strip() for c in ln.strip().strip('|').split('|')]
            if cur is None:
                cur = {'header': cells[1:], 'rows': {}}
                tables.append(cur)
            else:
                cur['rows'][cells[0]] = cells[1:]
        elif not ln.startswith('+'):
            cur = None
    if len(tables) < 2:
        raise HarnessError('compatibility tables not found in docs/readcode.rst')
    types, nd = tables[0], tables[1]

    def canon(h):
        # 'Matlab/Octave', 'NumPy', 'julia' ... -> the column names used below
        words = re.split(r'[^a-z0-9]+', h.lower())
        for v in sorted(set(COL.values())):
            if h.lower() == v.lower() or v.lower() in words or h.lower().startswith(v.lower()):
                return v
        return h
    for t in (types, nd):
        t['header'] = [canon(h) for h in t['header']]
    # a cell offers the language iff it carries the mark 'X' (X, X*, X**, X(1)); empty, '-', 'no' ... do not
    tt = {nt: {h: 'X' in c.upper() for h, c in zip(types['header'], row)} for nt, row in types['rows'].items()}
    ndt = {k: {h: 'X' in c.upper() for h, c in zip(nd['header'], row)} for k, row in nd['rows'].items()}
    return tt, ndt


def widen_equal(got, exp):
    """Exact value equality after widening both sides (NaN == NaN; the sign of
    zero counts).  Shapes must already agree."""
    got, exp = np.asarray(got), np.asarray(exp)
    if got.shape != exp.shape:
        return False, f'shape {got.shape} != {exp.shape}'
    if got.size == 0:
        return True, ''
    if got.dtype.kind == 'c' or exp.dtype.kind == 'c':
        a, b = got.astype(np.complex128), exp.astype(np.complex128)
        ok = widen_equal(a.real, b.real)[0] and widen_equal(a.imag, b.imag)[0]
        return ok, '' if ok else 'values differ'
    if got.dtype.kind == 'f' or exp.dtype.kind == 'f':
        a, b = got.astype(np.float64), exp.astype(np.float64)
        ok = np.array_equal(a, b, equal_nan=True) and np.array_equal(np.signbit(a) | np.isnan(a), np.signbit(b) | np.isnan(b))
        return bool(ok), '' if ok else 'values differ'
    a = np.array([int(x) for x in got.ravel().tolist()], dtype=object)
    b = np.array([int(x) for x in exp.ravel().tolist()], dtype=object)
    ok = bool((a == b).all())
    return ok, '' if ok else 'values differ'


def make_values(shape, dtype, vseed):
    a = D.rand_bits(tuple(shape), np.dtype(dtype), vseed)
    if np.dtype(dtype).kind == 'i' and np.dtype(dtype).itemsize == 4:
        nat = a.astype(a.dtype.newbyteorder('='))
        nat[nat == np.iinfo(np.int32).min] += 1       # docs footnote (1): R reads it as NA
        a = nat.astype(a.dtype)
    return a


def toplevel_lines(code):
    """the lines of a snippet that start a statement: not inside an open bracket, not after a trailing
    comma, operator or continuation mark of the line before (`name=` inside a call is a keyword, not a binding)"""
    out, depth, cont = [], 0, False
    for l in code.splitlines():
        if not l.strip():
            continue
        if depth <= 0 and not cont:
            out.append(l)
        bare = re.sub(r'"[^"]*"|\'[^\']*\'', '', l)
        depth += sum(bare.count(c) for c in '([{') - sum(bare.count(c) for c in ')]}')
        cont = bare.rstrip().endswith((',', '...', '\\', '+', '-', '*', '/', '<-', '=', '&', '|', '$'))
    return out


def snippet_result_var(code, lang, default='a'):
    """the variable a snippet binds the array to: read from the text, not assumed"""
    if lang == 'python':
        m = re.search(r'(\w+)\s*=\s*(?:array\.)?array\(', code)
        return m.group(1) if m else default
    lines = toplevel_lines(code)
    for l in reversed(lines):
        m = re.match(r'\s*(\w+)\s*(?:<-|:=|=)(?!=)\s*(.*)', l)
        if m and not re.match(r'(?:f|m)?close\s*[(\[]|free_lun|Close\s*\[', m.group(2), re.I):   # status = fclose(fid)
            return m.group(1)
    return default


def exec_python_snippet(code, cwd, placeholder_target=None):
    """Really execute a Python-family snippet with the given working directory."""
    old = os.getcwd()
    os.chdir(cwd)
    link = None
    try:
        if placeholder_target is not None:
            # the darr snippet names a placeholder for the directory: make that name resolve
            m = re.search(r'(?:Array|RaggedArray)\(\s*(?:path\s*=\s*)?[\'"]([^\'"]+)[\'"]', code)
            link = os.path.join(cwd, m.group(1) if m else 'path_to_data_dir')
            if not os.path.lexists(link):
                os.symlink(placeholder_target, link)
        ns = {}
        exec(compile(code, '<snippet>', 'exec'), ns)
        return ns
    finally:
        os.chdir(old)
        if link is not None and os.path.islink(link):
            os.unlink(link)


class ArrayReadCode(Engine):
    prop = 'C06'
    quick_runs = 1500
    thorough_runs = 30000
    batch = 20
    NCELLS = 26 * 4 * 3

    def gen(self, rng, i, tier):
        if i < self.NCELLS:      # the structure space, completely, in a seeded order
            perm = list(range(self.NCELLS))
            import random
            random.Random(12345).shuffle(perm)
            c = perm[i]
            dtype = D.ALL_DTYPES[c % 26]
            rank = (c // 26) % 4 + 1
            pathmode = ['rel', 'base', 'abs'][c // 104]
            shape = list(SHAPES[rank])
            ops = []
        else:
            dtype = D.pick_dtype(rng)
            rank = rng.choice([1, 1, 2, 3, 4])
            ext = rng.sample([1, 2, 3, 4, 5, 6], rank)
            if rng.random() < 0.3:
                ext[rng.randrange(rank)] = 1
            if rng.random() < 0.12:
                ext[0] = 0
            shape = ext
            pathmode = rng.choice(['rel', 'base', 'abs'])
            ops = []
            for _ in range(rng.choice([0, 0, 0, 1, 2])):
                ops.append(rng.choice([{'op': 'append', 'rows': rng.choice([1, 2, 3]), 'vseed': rng.getrandbits(32)},
                                       {'op': 'append_fail', 'rows': rng.choice([1, 2]), 'vseed': rng.getrandbits(32)},
                                       {'op': 'truncate', 'index': rng.choice([-1, 1, 2])}]))
            if rng.random() < 0.015:
                # a long one-dimensional array: the program text may depend on the extent, too
                shape = [2 ** 20 + rng.randint(1, 9)]
                ops = []
        return {'engine': 'ArrayReadCode', 'prop': 'C06', 'dtype': dtype, 'shape': shape, 'vseed': rng.getrandbits(32),
                'pathmode': pathmode, 'ops': ops}

    def simplify(self, sc):
        if sc['pathmode'] != 'rel':
            yield dict(copy.deepcopy(sc), pathmode='rel')
        if len(sc['shape']) > 1:
            yield dict(copy.deepcopy(sc), shape=sc['shape'][:-1])

    def features(self, sc, v):
        return [f'rank={len(sc["shape"])}', 'dtype=' + np.dtype(sc['dtype']).name, 'pathmode=' + sc['pathmode']]

    def rule(self):
        return ('runs 0-311 enumerate the structure space 26 dtype cells x rank 1-4 (pairwise distinct extents) x 3 path modes, '
                'each against all 12 languages; further runs draw shapes with length-1 axes, 0-row arrays and arrays reached '
                'through append/truncate; element values are random bit patterns; L1 (numpy, numpymemmap, python, darr) is '
                'executed by CPython, L2 (R, Matlab, Scilab, Julia x2, IDL, Mathematica, Maple) interpreted by stubs; '
                'non-trivial = at least 4 snippets were run and compared; distinct = distinct scenario digests')

    def nontrivial(self, scenario, stats):
        return stats.get('steps', 0) >= 4

    def components(self):
        return {'real': ['darr readcode generators', 'CPython exec of the numpy / numpymemmap / python / darr snippets (L1)',
                         'numpy', 'kernel tmpfs', 'docs/readcode.rst tables parsed at check time'],
                'stub': ['interpreters for R, Matlab/Octave, Scilab, Julia <1 and >=1, IDL, Mathematica, Maple written from the '
                         'languages\' documented semantics (dsim/readers/foreign.py); no real interpreter is installed']}

    def run(self, sc, sandbox, emit):
        darr = import_darr()
        st = {'steps': 0, 'probes': {}, 'faults': {}, 'transitions': set(), 'extra': {}}
        viol = None
        self.cur = None
        try:
            self._run(darr, sc, sandbox, emit, st)
        except Viol as v:
            viol = {'oracle': v.oracle, 'signature': v.signature, 'op_index': None, 'op': self.cur, 'detail': v.detail}
            emit({'violation': v.oracle + ':' + v.signature})
        st['transitions'] = sorted(st['transitions'])
        return {'violation': viol, 'stats': st}

    def _run(self, darr, sc, sb, emit, st):
        work = os.path.join(sb, 'w')
        os.makedirs(os.path.join(work, 'sub'))
        elsewhere = os.path.join(sb, 'elsewhere')
        os.makedirs(elsewhere)
        path = os.path.join(work, 'sub', 't.darr')
        dtype = np.dtype(sc['dtype'])
        model = make_values(sc['shape'], dtype, sc['vseed'])
        a = darr.asarray(path, model, accessmode='r+')
        live = a
        if sc['ops']:
            for lang in ARRAY_LANGS_ALL:        # ask the long-lived object first, as a user would
                live.readcode(lang)
            live.readcodelanguages
        for op in sc['ops']:
            if op['op'] == 'append':
                extra = make_values([op['rows']] + list(model.shape[1:]), dtype, op['vseed'])
                a.append(extra)
                model = np.concatenate([model, extra]).astype(dtype, copy=False)
            elif op['op'] == 'append_fail':
                extra = make_values([op['rows']] + list(model.shape[1:]), dtype, op['vseed'])

                def it():
                    yield extra
                    raise RuntimeError('iterable failed (injected)')
                try:
                    a.iterappend(it())
                except Exception:
                    pass
                model = np.concatenate([model, extra]).astype(dtype, copy=False)
                st['probes']['state_reached_by_failed_iterappend'] = 1
            elif op['op'] == 'truncate':
                n = len(model[:op['index']])
                if 0 <= n < model.shape[0]:
                    darr.truncate_array(a, op['index'])
                    model = model[:op['index']].copy()
        a = darr.Array(path)
        if sc['ops']:
            # the code an object hands out describes the array as it is now, not as it was when first asked
            for lang in ARRAY_LANGS_ALL:
                if live.readcode(lang) != a.readcode(lang):
                    raise Viol('readcode.stale', f'{lang}:long_lived_object_differs_from_fresh', f'after {[o["op"] for o in sc["ops"]]}')
            if sorted(live.readcodelanguages) != sorted(a.readcodelanguages):
                raise Viol('readcode.stale', 'readcodelanguages:long_lived_object_differs_from_fresh', '')
            st['probes']['live_vs_fresh_code_compared'] = 1
        numtype = dtype.name
        ndim = model.ndim
        types, ndt = parse_docs_tables()
        mode = sc['pathmode']
        if mode == 'rel':
            kw, cwd, want_path = {}, path, 'arrayvalues.bin'
        elif mode == 'base':
            kw, cwd, want_path = {'basepath': 'sub/t.darr'}, work, 'sub/t.darr/arrayvalues.bin'
        else:
            kw, cwd, want_path = {'abspath': True}, elsewhere, os.path.join(os.path.realpath(path), 'arrayvalues.bin')
        offered = []
        empty = model.size == 0
        for lang in ARRAY_LANGS_ALL:
            self.cur = lang
            try:
                code = a.readcode(lang, **kw)
            except Exception as e:
                raise Viol('readcode.raises', f'{lang}:{type(e).__name__}', str(e)[:200])
            # ---- offered or withheld exactly as documented
            if lang == 'darr':
                expect = True
            else:
                col = COL[lang]
                if numtype not in types or col not in types[numtype]:
                    raise HarnessError(f'docs table has no cell for {numtype}/{col}')
                expect = types[numtype][col] and (ndim == 1 or ndt['N-D array'][col])
            if (code is not None) != expect:
                raise Viol('readcode.table', f'{lang}:{numtype}:{"offered_but_table_says_no" if code is not None else "withheld_but_table_says_yes"}',
                           f'ndim={ndim}')
            if code is None:
                st['probes']['withheld'] = st['probes'].get('withheld', 0) + 1
                continue
            offered.append(lang)
            if not isinstance(code, str):
                raise Viol('readcode.type', f'{lang}:{type(code).__name__}', '')
            pre = snapshot(path)
            if lang in ('numpy', 'numpymemmap', 'python', 'darr'):
                self._l1(darr, lang, code, cwd, path, model, want_path, empty, st)
            else:
                if not empty:
                    self._l2(lang, code, cwd, model, want_path, st)
            gc.collect()
            d = snap_diff(pre, snapshot(path))
            if d:
                raise Viol('readcode.modified_files', f'{lang}:{"empty_array" if empty else "nonempty"}', d)
            try:
                darr.Array(path)
            except Exception as e:
                raise Viol('readcode.modified_files', f'{lang}:array_unopenable_afterwards', str(e)[:200])
            st['steps'] += 1
        self.cur = 'readcodelanguages'
        if sorted(a.readcodelanguages) != sorted(offered):      # 'lists precisely the offered ones': no order is owed
            raise Viol('readcode.languages', 'not_exactly_the_offered_ones', f'{a.readcodelanguages} != {sorted(offered)}')
        # a second array of the same numeric type but the other dimensionality in the same process:
        # what is offered depends on the array, never on what was asked of another object before
        sshape = [3, 2] if ndim == 1 else [4]
        sib = darr.asarray(os.path.join(work, 'sibling.darr'), make_values(sshape, dtype, sc['vseed'] + 1))
        sexp = sorted(l for l in ARRAY_LANGS_ALL
                      if l == 'darr' or (types[numtype][COL[l]] and (len(sshape) == 1 or ndt['N-D array'][COL[l]])))
        if sorted(sib.readcodelanguages) != sorted(sexp):
            raise Viol('readcode.languages', 'second_array_in_same_process', f'ndim={len(sshape)} after ndim={ndim}: '
                       f'{list(sib.readcodelanguages)} != {sexp}')
        for l in ARRAY_LANGS_ALL:
            if (sib.readcode(l) is not None) != (l in sexp):
                raise Viol('readcode.table', f'{l}:second_array_in_same_process', f'ndim={len(sshape)}')
        if sorted(a.readcodelanguages) != sorted(offered):
            raise Viol('readcode.languages', 'changed_after_other_array_was_queried', '')
        st['probes']['sibling_checked'] = st['probes'].get('sibling_checked', 0) + 1
        st['transitions'].add(f'{numtype}|{D.dtstr(dtype)[0]}|{ndim}d|{mode}|{"empty" if empty else "data"}')
        st['probes'][f'cell:{D.dtstr(dtype)}:{ndim}:{mode}'] = 1
        emit({'dtype': D.dtstr(dtype), 'shape': list(model.shape), 'mode': mode, 'offered': offered})

    def _l1(self, darr, lang, code, cwd, path, model, want_path, empty, st):
        if lang != 'darr' and want_path not in code:
            raise Viol('readcode.path', f'{lang}:requested_path_not_used', f'wanted {want_path!r}')
        try:
            var = snippet_result_var(code, lang)
            ns = exec_python_snippet(code + (f'\n__r = {var}[:]\n' if lang == 'darr' else ''), cwd,
                                     placeholder_target=path if lang == 'darr' else None)
        except Exception as e:
            if empty:
                st['probes']['l1_raises_on_empty_array'] = st['probes'].get('l1_raises_on_empty_array', 0) + 1
                return
            raise Viol('readcode.l1_exec', f'{lang}:{type(e).__name__}', str(e)[:200])
        if var not in ns:
            raise Viol('readcode.l1_exec', f'{lang}:result_variable_unbound', var)
        got = ns[var]
        if lang == 'python':
            flat = model.ravel()
            if model.dtype.kind == 'c':
                # the values are there, real and imaginary parts alternating; how the snippet names
                # the separated parts is its own business (they are checked when present)
                inter = np.empty(flat.size * 2, dtype=np.float64)
                inter[0::2], inter[1::2] = flat.real, flat.imag
                gl = list(got)
                if gl and all(isinstance(x, complex) for x in gl):       # the values as Python complex numbers
                    gl = [p for x in gl for p in (x.real, x.imag)]
                ok = widen_equal(np.array(gl, dtype=np.float64), inter)[0]
                for nm, part in (('real', flat.real), ('imag', flat.imag)):
                    if nm in ns and ok:
                        ok = widen_equal(np.array(list(ns[nm]), dtype=np.float64), part)[0]
            else:
                vals = list(got)
                if len(vals) != flat.size:
                    ok = False
                elif model.dtype.kind in 'iu':
                    ok = [int(v) for v in vals] == [int(x) for x in flat.tolist()]
                else:
                    ok = widen_equal(np.array(vals, dtype=np.float64), flat)[0]
            if not ok:
                raise Viol('readcode.l1_value', 'python:values_differ', '')
        else:
            arr = ns['__r'] if lang == 'darr' else np.array(got, copy=True)
            ref = model
            if isinstance(arr, np.ndarray) and arr.dtype != model.dtype and \
                    arr.dtype.newbyteorder('=') == model.dtype.newbyteorder('='):
                # "yields exactly the stored values": the byte order of the in-memory result is the reader's choice
                arr, ref = arr.astype(arr.dtype.newbyteorder('=')), model.astype(model.dtype.newbyteorder('='))
                st['probes']['l1_result_in_other_byte_order'] = 1
            ok, why = D.arr_equal(arr, ref)
            if not ok:
                raise Viol('readcode.l1_value', f'{lang}:{why.split(" ")[0]}', why)
        if lang == 'numpymemmap':
            mm = getattr(got, '_mmap', None)
            del got
            ns.clear()
            gc.collect()
        st['probes']['l1:' + lang] = st['probes'].get('l1:' + lang, 0) + 1

    def _l2(self, lang, code, cwd, model, want_path, st):
        try:
            res = F.run_array_snippet(lang, code, cwd, varname=snippet_result_var(code, lang))
        except F.IllFormed as e:
            raise Viol('readcode.l2_illformed', f'{lang}:{str(e).split(":")[1] if ":" in str(e) else str(e)[:30]}', str(e)[:300])
        except F.LangRuntimeError as e:
            raise Viol('readcode.l2_runtime', f'{lang}:{str(e).split(":")[1] if ":" in str(e) else str(e)[:30]}', str(e)[:300])
        except F.StubLimitation as e:
            st['probes']['stub_limitation:' + lang] = st['probes'].get('stub_limitation:' + lang, 0) + 1
            return
        exp = model if lang == 'mathematica' else model.transpose()
        got = F.conform(lang, res.value, exp.shape)
        if got.shape != exp.shape:
            if lang == 'scilab' and model.dtype.kind == 'c' and 1 in model.shape and got.size == exp.size:
                # squeeze() also removes genuine length-1 axes; orientation semantics unverified
                st['probes']['unverified:scilab_squeeze_singleton_axis'] = st['probes'].get('unverified:scilab_squeeze_singleton_axis', 0) + 1
                if widen_equal(got.ravel(order='F'), exp.ravel(order='F'))[0]:
                    return
            raise Viol('readcode.l2_value', f'{lang}:shape', f'{got.shape} != {exp.shape} (stored {model.shape})')
        ok, why = widen_equal(got, exp)
        if not ok:
            raise Viol('readcode.l2_value', f'{lang}:values', why)
        paths = getattr(res, 'paths', [])
        if paths and want_path not in paths:
            raise Viol('readcode.path', f'{lang}:requested_path_not_used', f'{paths} vs {want_path!r}')
        for u in res.unverified:
            key = 'unverified:' + lang
            st['probes'][key] = st['probes'].get(key, 0) + 1
        st['probes']['l2:' + lang] = st['probes'].get('l2:' + lang, 0) + 1


# =============================================================================
# C07: ragged read code
# =============================================================================

ORIGIN = {'R': 1, 'matlab': 1, 'scilab': 1, 'julia': 1, 'mathematica': 1, 'maple': 1, 'idl': 0,
          'numpymemmap': 0, 'darr': 0}
POSITION = {0: 'first', 1: 'second', 2: 'third'}


class RaggedReadCode(Engine):
    prop = 'C07'
    quick_runs = 1500
    thorough_runs = 30000
    batch = 15

    def gen(self, rng, i, tier):
        dtype = D.pick_dtype(rng)
        r = rng.random()
        atom = [] if r < 0.4 else [rng.choice([1, 2, 3])] if r < 0.7 else [rng.choice([2, 3]), rng.choice([1, 2, 4])] \
            if r < 0.9 else [2, 3, 2]
        nsub = rng.choice([1, 2, 3, 3, 4, 7])
        lens = [rng.choice([0, 1, 2, 3, 5]) for _ in range(nsub)]
        if rng.random() < 0.1:
            lens = [0] * nsub          # no values at all
        indextype = rng.choice(D.INDEXTYPES)
        ops = []
        for _ in range(rng.choice([0, 0, 1, 2])):
            ops.append(rng.choice([{'op': 'append', 'rows': rng.choice([0, 1, 2]), 'vseed': rng.getrandbits(32)},
                                   {'op': 'append_fail', 'rows': rng.choice([1, 2]), 'vseed': rng.getrandbits(32)},
                                   {'op': 'truncate', 'index': -1}]))
        return {'engine': 'RaggedReadCode', 'prop': 'C07', 'dtype': dtype, 'atom': atom, 'lens': lens,
                'indextype': indextype, 'vseed': rng.getrandbits(32), 'pathmode': rng.choice(['rel', 'base', 'abs']),
                'how': rng.choice(['asraggedarray', 'asraggedarray', 'create+append']), 'ops': ops}

    def simplify(self, sc):
        if sc['pathmode'] != 'rel':
            yield dict(copy.deepcopy(sc), pathmode='rel')
        if sc['atom']:
            yield dict(copy.deepcopy(sc), atom=sc['atom'][:-1])
        if len(sc['lens']) > 1:
            for j in range(len(sc['lens'])):
                c = copy.deepcopy(sc)
                del c['lens'][j]
                yield c
        if sc['indextype'] != 'int64':
            yield dict(copy.deepcopy(sc), indextype='int64')
        if sc['how'] != 'asraggedarray':
            yield dict(copy.deepcopy(sc), how='asraggedarray')

    def features(self, sc, v):
        return [f'atomrank={len(sc["atom"])}', 'dtype=' + np.dtype(sc['dtype']).name, 'indextype=' + sc['indextype'],
                f'nsub={len(sc["lens"])}', 'has_zero_length' if 0 in sc['lens'] else 'no_zero_length']

    def rule(self):
        return ('one ragged array per run: 26 value dtype cells x 7 index types x atom rank 0-3 x {1,2,3,4,7} subarrays of '
                'length 0-5 (10% without any value), optionally after append/truncate; all 9 languages x 3 path modes drawn; '
                'L1 (numpymemmap, darr) executed by CPython incl. getsubarray(k)/a[k] for every k and the example statement; '
                'L2 (R, Matlab, Scilab, Julia, IDL, Mathematica, Maple) interpreted by stubs for every k; non-trivial = at '
                'least 3 snippets judged; distinct = distinct scenario digests')

    def nontrivial(self, scenario, stats):
        return stats.get('steps', 0) >= 3

    def components(self):
        return ArrayReadCode().components()

    def run(self, sc, sandbox, emit):
        darr = import_darr()
        st = {'steps': 0, 'probes': {}, 'faults': {}, 'transitions': set(), 'extra': {}}
        viol = None
        self.cur = None
        try:
            self._run(darr, sc, sandbox, emit, st)
        except Viol as v:
            viol = {'oracle': v.oracle, 'signature': v.signature, 'op_index': None, 'op': self.cur, 'detail': v.detail}
            emit({'violation': v.oracle + ':' + v.signature})
        st['transitions'] = sorted(st['transitions'])
        return {'violation': viol, 'stats': st}

    def _run(self, darr, sc, sb, emit, st):
        work = os.path.join(sb, 'w')
        os.makedirs(os.path.join(work, 'sub'))
        elsewhere = os.path.join(sb, 'elsewhere')
        os.makedirs(elsewhere)
        path = os.path.join(work, 'sub', 'r.darr')
        dtype = np.dtype(sc['dtype'])
        atom = tuple(sc['atom'])
        L = [make_values((n,) + atom, dtype, sc['vseed'] + j) for j, n in enumerate(sc['lens'])]
        if sc['how'] == 'asraggedarray':
            ra = darr.asraggedarray(path, L, dtype=dtype, indextype=sc['indextype'], accessmode='r+')
        else:
            ra = darr.create_raggedarray(path, atom=atom, dtype=dtype, indextype=sc['indextype'], accessmode='r+')
            ra.iterappend(L)
        live = ra
        if sc['ops']:
            for lang in RAGGED_LANGS_ALL:
                live.readcode(lang)
            live.readcodelanguages
        for op in sc['ops']:
            if op['op'] == 'append':
                x = make_values((op['rows'],) + atom, dtype, op['vseed'])
                ra.append(x)
                L.append(x)
            elif op['op'] == 'append_fail':
                x = make_values((op['rows'],) + atom, dtype, op['vseed'])

                def it():
                    yield x
                    raise RuntimeError('iterable failed (injected)')
                try:
                    ra.iterappend(it())
                except Exception:
                    pass
                L.append(x)
                st['probes']['state_reached_by_failed_iterappend'] = 1
            elif len(L) > 1:
                darr.truncate_raggedarray(ra, -1)
                L = L[:-1]
        ra = darr.RaggedArray(path)
        if sc['ops']:
            for lang in RAGGED_LANGS_ALL:
                if live.readcode(lang) != ra.readcode(lang):
                    raise Viol('readcode.stale', f'{lang}:long_lived_object_differs_from_fresh', f'after {[o["op"] for o in sc["ops"]]}')
            if sorted(live.readcodelanguages) != sorted(ra.readcodelanguages):
                raise Viol('readcode.stale', 'readcodelanguages:long_lived_object_differs_from_fresh', '')
            st['probes']['live_vs_fresh_code_compared'] = 1
        n = len(L)
        nvalues = sum(x.shape[0] for x in L)
        types, ndt = parse_docs_tables()
        mode = sc['pathmode']
        if mode == 'rel':
            kw, cwd = {}, path
            wantv, wanti = 'values/arrayvalues.bin', 'indices/arrayvalues.bin'
        elif mode == 'base':
            kw, cwd = {'basepath': 'sub/r.darr'}, work
            wantv, wanti = 'sub/r.darr/values/arrayvalues.bin', 'sub/r.darr/indices/arrayvalues.bin'
        else:
            kw, cwd = {'abspath': True}, elsewhere
            wantv = os.path.join(os.path.realpath(path), 'values', 'arrayvalues.bin')
            wanti = os.path.join(os.path.realpath(path), 'indices', 'arrayvalues.bin')
        offered = []
        vt, it = dtype.name, sc['indextype']
        for lang in RAGGED_LANGS_ALL:
            self.cur = lang
            try:
                code = ra.readcode(lang, **kw)
            except Exception as e:
                raise Viol('readcode.raises', f'{lang}:{type(e).__name__}', str(e)[:200])
            if lang == 'darr':
                expect = True
            else:
                col = COL[lang]
                vok = types[vt][col] and (len(atom) == 0 or ndt['N-D array'][col])
                iok = types[it][col] and ndt['N-D array'][col]
                if lang == 'R' and it == 'int64':
                    iok = True        # documented allowance: int64 indices are read as long as they fit int32
                expect = vok and iok
            if (code is not None) != expect:
                raise Viol('readcode.table', f'{lang}:{"offered_but_unsupported" if code is not None else "withheld_but_supported"}',
                           f'values={vt} indices={it} atomrank={len(atom)}')
            if code is None:
                st['probes']['withheld'] = st['probes'].get('withheld', 0) + 1
                continue
            offered.append(lang)
            pre = snapshot(path)
            if nvalues > 0:
                if lang in ('numpymemmap', 'darr'):
                    self._l1(lang, code, cwd, path, L, wantv, wanti, st)
                else:
                    self._l2(lang, code, cwd, L, atom, wantv, wanti, st)
            else:
                # no values: nothing is owed about what the code returns, only that it changes nothing
                try:
                    if lang in ('numpymemmap', 'darr'):
                        exec_python_snippet(code, cwd, placeholder_target=path if lang == 'darr' else None)
                    else:
                        F.run_ragged_snippet(lang, code, cwd)
                except Exception:
                    pass
                st['probes']['ran_on_ragged_without_values'] = st['probes'].get('ran_on_ragged_without_values', 0) + 1
            gc.collect()
            d = snap_diff(pre, snapshot(path))
            if d:
                raise Viol('readcode.modified_files', f'{lang}:{"no_values" if nvalues == 0 else "with_values"}', d)
            try:
                darr.RaggedArray(path)
            except Exception as e:
                raise Viol('readcode.modified_files', f'{lang}:array_unopenable_afterwards', str(e)[:200])
            st['steps'] += 1
        self.cur = 'readcodelanguages'
        if sorted(ra.readcodelanguages) != sorted(offered):
            raise Viol('readcode.languages', 'not_exactly_the_offered_ones', f'{ra.readcodelanguages} != {sorted(offered)}')
        # a second ragged array in the same process (other atom rank, other index type): what is offered
        # depends on the array asked, not on what another object was asked before
        satom = (2,) if len(atom) == 0 else ()
        sit = 'uint32' if it != 'uint32' else 'int16'
        sib = darr.asraggedarray(os.path.join(work, 'sibling.darr'), [make_values((2,) + satom, dtype, 5)],
                                 dtype=dtype, indextype=sit)

        def expected(lang, atomrank, itype):
            if lang == 'darr':
                return True
            col = COL[lang]
            vok = types[vt][col] and (atomrank == 0 or ndt['N-D array'][col])
            iok = (types[itype][col] and ndt['N-D array'][col]) or (lang == 'R' and itype == 'int64')
            return bool(vok and iok)
        sexp = sorted(l for l in RAGGED_LANGS_ALL if expected(l, len(satom), sit))
        if sorted(sib.readcodelanguages) != sorted(sexp):
            raise Viol('readcode.languages', 'second_array_in_same_process', f'{list(sib.readcodelanguages)} != {sexp}')
        if sorted(ra.readcodelanguages) != sorted(offered):
            raise Viol('readcode.languages', 'changed_after_other_array_was_queried', '')
        st['probes']['sibling_checked'] = st['probes'].get('sibling_checked', 0) + 1
        st['transitions'].add(f'{dtype.kind}{dtype.itemsize}|{it}|atom{len(atom)}|n{min(n, 4)}|{mode}|z{int(0 in [x.shape[0] for x in L])}')
        emit({'dtype': D.dtstr(dtype), 'atom': list(atom), 'lens': [x.shape[0] for x in L], 'it': it, 'mode': mode, 'offered': offered})

    def check_example(self, lang, k_comment, position, bound, value, error, L, conv, st):
        """the example statement binds an existing subarray - the one the snippet states, where it states one
        in a form we can read (a position word and/or 'k = N' in a comment); wording is not demanded"""
        n = len(L)
        if error is not None:
            raise Viol('readcode.example', f'{lang}:example_statement_fails', str(error)[:200])
        if not bound:
            raise Viol('readcode.example', f'{lang}:example_binds_nothing', '')
        stated = None
        if k_comment is not None:
            stated = k_comment - ORIGIN[lang]
            if not (0 <= stated < n):
                raise Viol('readcode.example', f'{lang}:states_nonexisting_subarray', f'k={k_comment} n={n}')
            if position is not None and POSITION.get(stated) != position:
                raise Viol('readcode.example', f'{lang}:position_word_disagrees_with_k', f'{position} vs k={k_comment}')
        elif position is not None:
            stated = {v: k for k, v in POSITION.items()}[position]
            if stated >= n:
                raise Viol('readcode.example', f'{lang}:states_nonexisting_subarray', f'{position} of {n}')
        if stated is not None:
            ok, why = conv(value, L[stated])
            if not ok:
                raise Viol('readcode.example', f'{lang}:binds_another_subarray_than_stated', f'{position or k_comment}: {why}')
        else:
            if not any(conv(value, L[k])[0] for k in range(n)):
                raise Viol('readcode.example', f'{lang}:binds_no_existing_subarray', '')
            st['probes']['example_without_readable_statement'] = 1
        st['probes']['example_checked'] = st['probes'].get('example_checked', 0) + 1

    def _l1(self, lang, code, cwd, path, L, wantv, wanti, st):
        n = len(L)
        if lang == 'numpymemmap' and (wantv not in code or wanti not in code):
            raise Viol('readcode.path', f'{lang}:requested_path_not_used', f'{wantv!r} / {wanti!r}')
        # the example statement = the last top-level *assignment* (a trailing print(...) is not it); what it claims to
        # bind is read from the comment lines directly above it only (other comments may mention "first", "k=0" ...)
        cl = code.splitlines()
        tl = [l for l in toplevel_lines(code) if not l.lstrip().startswith('#')]
        asg = [l for l in tl if re.match(r'\s*\w+\s*=(?!=)', l) and not l.startswith((' ', '\t'))]
        exline = asg[-1] if asg else (tl[-1] if tl else '')
        cut = max([i for i, l in enumerate(cl) if l == exline] or [len(cl)])
        above = []
        j = cut - 1
        while j >= 0 and (cl[j].lstrip().startswith('#') or not cl[j].strip()):
            if cl[j].strip():
                above.append(cl[j])
            j -= 1
        comments = '\n'.join(above)
        m = re.search(r'\bk\s*=\s*(\d+)', comments)
        pm = re.search(r'\b(first|second|third)\b', comments)
        fm = re.search(r'(?m)^def (\w+)\(\s*\w+[^)]*\)\s*(?:->[^:]+)?:', code)
        fname = fm.group(1) if fm else 'getsubarray'          # the accessor, whatever it is called
        vm = re.match(r'\s*(\w+)\s*=', exline)
        exvar = vm.group(1) if vm else 'sa'                    # the variable the example statement binds
        am = re.search(r'(?m)^(\w+)\s*=\s*(?:\w+\.)*RaggedArray\s*\(', code)
        avar = am.group(1) if am else 'a'
        post = ('\n__subs = [%s(k) for k in range(%d)]\n' % (fname, n)) if lang == 'numpymemmap' else \
            ('\n__subs = [%s[k] for k in range(%d)]\n' % (avar, n))
        # the snippet as emitted (with its example statement), then every k
        ns, err = None, None
        try:
            ns = exec_python_snippet(code, cwd, placeholder_target=path if lang == 'darr' else None)
        except Exception as e:   # noqa
            err = f'{type(e).__name__}: {e}'
        bound = ns is not None and exvar in ns
        val = np.array(ns[exvar], copy=True) if bound else None
        self.check_example(lang, int(m.group(1)) if m else None, pm.group(1) if pm else None, bound, val, err, L,
                           lambda v, e: D.arr_equal(v, e), st)
        if ns is not None:
            ns.clear()
        try:
            # the snippet without its example statement (and whatever follows it)
            body = '\n'.join(cl[:cut]) + '\n'
            ns2 = exec_python_snippet(body + post, cwd, placeholder_target=path if lang == 'darr' else None)
        except Exception as e:
            raise Viol('readcode.l1_exec', f'{lang}:{type(e).__name__}', str(e)[:200])
        subs = [np.array(x, copy=True) for x in ns2['__subs']]
        ns2.clear()
        gc.collect()
        for k in range(n):
            ok, why = D.arr_equal(subs[k], L[k])
            if not ok:
                z = ':zero_length' if L[k].shape[0] == 0 else ''
                raise Viol('readcode.l1_value', f'{lang}:subarray{z}:{why.split(" ")[0]}', f'k={k} {why}')
        st['probes']['l1:' + lang] = st['probes'].get('l1:' + lang, 0) + 1

    def _l2(self, lang, code, cwd, L, atom, wantv, wanti, st):
        n = len(L)
        short = lambda e: str(e).split(':')[1].strip() if str(e).count(':') >= 1 else str(e)[:30]   # noqa
        try:
            # the variable the example binds is read from the last statement of the snippet
            exvar = 'sa'
            for l in reversed([x for x in code.splitlines() if x.strip()]):
                mm = re.match(r'\s*(?:IF\b.*?THEN\s+)?(\w+)\s*(?:<-|:=|=)(?!=)', l)
                if mm:
                    exvar = mm.group(1)
                    break
            res = F.run_ragged_snippet(lang, code, cwd, example_var=exvar)
        except F.IllFormed as e:
            raise Viol('readcode.l2_illformed', f'{lang}:{short(e)}', str(e)[:300])
        except F.LangRuntimeError as e:
            raise Viol('readcode.l2_runtime', f'{lang}:{short(e)}', str(e)[:300])
        except F.StubLimitation as e:
            st['probes']['stub_limitation:' + lang] = st['probes'].get('stub_limitation:' + lang, 0) + 1
            return
        if getattr(res, 'files_left_open', None):
            raise Viol('readcode.l2_illformed', f'{lang}:file_left_open', str(res.files_left_open))
        paths = getattr(res, 'paths', [])
        if paths and (wantv not in paths or wanti not in paths):
            raise Viol('readcode.path', f'{lang}:requested_path_not_used', f'{paths}')
        rowmajor = lang == 'mathematica'

        def conv(value, expected):
            exp = expected if rowmajor else expected.transpose()
            value = np.asarray(value)
            if expected.shape[0] == 0:
                # an empty value; where the language gives it dimensions they are the atom's, in its axis order
                if value.size != 0:
                    return False, f'not empty: shape {value.shape}'
                if value.ndim <= 1 or tuple(value.shape) == tuple(exp.shape):
                    return True, ''
                got = F.conform(lang, value, exp.shape)
                if tuple(got.shape) == tuple(exp.shape):
                    return True, ''
                return False, f'empty value has dimensions {value.shape}, atom in this language is {exp.shape}'
            got = F.conform(lang, value, exp.shape)
            if got.shape != exp.shape:
                return False, f'shape {got.shape} != {exp.shape}'
            return widen_equal(got, exp)
        self.check_example(lang, res.example_comment_k, res.example_position, res.example_bound, res.example_value,
                           res.example_error, L, conv, st)
        for k0 in range(n):
            k = k0 + ORIGIN[lang]
            try:
                v = res.get(k)
            except F.LangRuntimeError as e:
                z = ':zero_length' if L[k0].shape[0] == 0 else ''
                raise Viol('readcode.l2_runtime', f'{lang}:accessor{z}:{short(e)}', f'k={k}: {str(e)[:200]}')
            except F.IllFormed as e:
                raise Viol('readcode.l2_illformed', f'{lang}:accessor:{short(e)}', str(e)[:300])
            except F.StubLimitation:
                st['probes']['stub_limitation:' + lang] = st['probes'].get('stub_limitation:' + lang, 0) + 1
                return
            ok, why = conv(v, L[k0])
            if not ok:
                z = ':zero_length' if L[k0].shape[0] == 0 else ''
                raise Viol('readcode.l2_value', f'{lang}:subarray{z}', f'k={k} (0-based {k0}) of {n}: {why}')
        for u in res.unverified:
            st['probes']['unverified:' + lang] = st['probes'].get('unverified:' + lang, 0) + 1
        st['probes']['l2:' + lang] = st['probes'].get('l2:' + lang, 0) + 1
