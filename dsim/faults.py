"""Fault injectors: kernel-enforced file size limit, the tofile seam, line
tracer for crash points."""
import errno
import os
import resource
import signal
from contextlib import contextmanager

import numpy as np


# ---- efbig_kernel ------------------------------------------------------------

@contextmanager
def fsize_limit(nbytes):
    """The kernel refuses to grow any file of this process beyond nbytes
    (write returns EFBIG; SIGXFSZ ignored).  Byte-precise and deterministic."""
    old_handler = signal.signal(signal.SIGXFSZ, signal.SIG_IGN)
    soft, hard = resource.getrlimit(resource.RLIMIT_FSIZE)
    resource.setrlimit(resource.RLIMIT_FSIZE, (int(nbytes), hard))
    try:
        yield
    finally:
        resource.setrlimit(resource.RLIMIT_FSIZE, (soft, hard))
        signal.signal(signal.SIGXFSZ, old_handler)


# ---- enospc_seam -------------------------------------------------------------

class FaultyArray(np.ndarray):
    """ndarray whose tofile consults a plan: pass through, or write a prefix
    and raise OSError(ENOSPC)."""
    _plan = None

    def tofile(self, fid, sep='', format='%s'):
        plan = self._plan
        base = np.asarray(self)
        if plan is None:
            return base.tofile(fid, sep, format)
        act = plan.next_action(fid, base)
        if act is None:
            return base.tofile(fid, sep, format)
        nbytes = act
        raw = np.ascontiguousarray(base).tobytes()[:nbytes]
        if isinstance(fid, (str, os.PathLike)):
            with open(fid, 'wb') as f:
                f.write(raw)
        else:
            fid.write(raw)
            fid.flush()
        plan.fired += 1
        raise OSError(errno.ENOSPC, 'No space left on device (injected)')


class SeamPlan:
    """fail the nth tofile call (0-based) whose target file lies in a
    directory named `which` (None = any), after writing `nbytes` bytes."""

    def __init__(self, which, nth, nbytes):
        self.which, self.nth, self.nbytes = which, nth, nbytes
        self.count = 0
        self.fired = 0
        self.engaged = 0

    def next_action(self, fid, arr):
        name = fid if isinstance(fid, (str, os.PathLike)) else getattr(fid, 'name', '')
        d = os.path.basename(os.path.dirname(str(name)))
        if self.which is not None and d != self.which:
            return None
        k = self.count
        self.count += 1
        if k == self.nth:
            return min(self.nbytes, arr.nbytes)
        return None


@contextmanager
def tofile_seam(darr, plan):
    """Rebind Array._checkarrayforappend so that the array it returns has a
    tofile that consults `plan`.  If the seam does not exist in this tree the
    context does nothing and plan.engaged stays 0."""
    Array = darr.Array
    orig = getattr(Array, '_checkarrayforappend', None)
    if orig is None:
        yield plan
        return

    def wrapped(self, array, *args, **kw):
        out = orig(self, array, *args, **kw)
        if isinstance(out, np.ndarray):
            plan.engaged += 1
            fa = out.view(FaultyArray)
            fa._plan = plan
            return fa
        return out
    Array._checkarrayforappend = wrapped
    try:
        yield plan
    finally:
        Array._checkarrayforappend = orig
