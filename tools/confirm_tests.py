#!/venv/bin/python
"""For every seeded change whose meta.json does not yet record it: apply the patch to a scratch
worktree of /repo, run the existing test suite, record the result in meta.json.
Usage: confirm_tests.py [ids...]"""
import json
import os
import shutil
import subprocess
import sys

S = os.path.join(os.path.dirname(os.path.dirname(os.path.abspath(__file__))), 'seeded')


def sh(cmd, cwd=None, env=None):
    e = dict(os.environ)
    if env:
        e.update(env)
    p = subprocess.run(cmd, shell=True, cwd=cwd, env=e, capture_output=True, text=True, timeout=1800)
    return p.returncode, p.stdout + p.stderr


def main():
    ids = sys.argv[1:] or sorted(d for d in os.listdir(S) if os.path.isdir(os.path.join(S, d)))
    for i in ids:
        mp = os.path.join(S, i, 'meta.json')
        meta = json.load(open(mp))
        if meta.get('confirmed', {}).get('existing_tests_with_patch') and not sys.argv[1:]:
            continue
        scratch = f'/dev/shm/confirm-{os.getpid()}'
        shutil.rmtree(scratch, ignore_errors=True)
        sh(f'git -C /repo worktree add -q --detach {scratch} HEAD')
        try:
            rc, o = sh(f'git apply {os.path.join(S, i, "patch.diff")}', cwd=scratch)
            if rc:
                rc, o = sh(f'git apply -3 {os.path.join(S, i, "patch.diff")}', cwd=scratch)
            if rc or 'with conflicts' in o:
                res = 'PATCH DOES NOT APPLY'
            else:
                rc, o = sh('/venv/bin/python -m pytest -q -p no:cacheprovider --timeout=900 -n 8', cwd=scratch,
                           env={'PYTHONPATH': scratch})
                res = o.strip().splitlines()[-1][:100] if o.strip() else f'rc={rc}'
            meta.setdefault('confirmed', {})['existing_tests_with_patch'] = res
            json.dump(meta, open(mp, 'w'), indent=1)
            print(i, res, flush=True)
        finally:
            sh(f'git -C /repo worktree remove --force {scratch}')
            shutil.rmtree(scratch, ignore_errors=True)


if __name__ == '__main__':
    main()
