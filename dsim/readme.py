"""O-readme: README.txt is exactly what Darr generates for the current
on-disk state (differential), and contains what the statement names
(semantic, independent of wording)."""
import os
import re
import shutil
from .core import import_darr, HarnessError


def _regen(handle, dirpath):
    """Let Darr regenerate README.txt for the directory `dirpath` through a fresh handle: the private
    _update_readmetxt when it exists, else the module-level readcodetxt(handle); neither = HARNESS-ERROR."""
    if hasattr(handle, '_update_readmetxt'):
        handle._update_readmetxt()
        return
    import importlib
    mod = importlib.import_module(type(handle).__module__)
    fn = getattr(mod, 'readcodetxt', None)
    if fn is None:
        raise HarnessError('neither _update_readmetxt nor readcodetxt: README differential oracle unavailable')
    with open(os.path.join(dirpath, 'README.txt'), 'w', encoding='utf-8') as f:
        f.write(fn(handle))


def _codelines(text):
    return [l.strip() for l in text.splitlines() if l.strip()]


def contains_code(txt, code):
    """the snippet occurs in the README, line by line in sequence; indentation is free"""
    if code in txt:
        return True
    want, have = _codelines(code), _codelines(txt)
    if not want:
        return True
    for i in range(len(have) - len(want) + 1):
        if have[i:i + len(want)] == want:
            return True
    return False


def _copy_same_name(path, scratch):
    """a copy of the directory under the same base name (a README may mention its directory)"""
    shutil.rmtree(scratch, ignore_errors=True)
    os.makedirs(scratch)
    dst = os.path.join(scratch, os.path.basename(os.path.normpath(path)))
    shutil.copytree(path, dst, symlinks=True)
    return dst


def check_array_readme(path, scratch, model_shape=None, has_meta=None, who='array'):
    """path: array directory.  scratch: a directory path we may create/delete.
    Returns None or (oracle, signature, detail)."""
    darr = import_darr()
    rp = os.path.join(path, 'README.txt')
    if not os.path.isfile(rp):
        return (f'readme.{who}', 'missing', '')
    with open(rp, 'rb') as f:
        cur = f.read()
    cp = _copy_same_name(path, scratch)
    try:
        try:
            h = darr.Array(cp, accessmode='r+')
        except Exception as e:
            return (f'readme.{who}', f'copy_unopenable:{type(e).__name__}', str(e)[:200])
        _regen(h, cp)
        with open(os.path.join(cp, 'README.txt'), 'rb') as f:
            new = f.read()
        if new != cur:
            return (f'readme.{who}', 'stale_differential', _firstdiff(cur, new))
        # semantic containment
        txt = cur.decode('utf-8', errors='replace')
        fresh = darr.Array(path)
        for lang in fresh.readcodelanguages:
            try:
                code = fresh.readcode(lang)
            except Exception:
                continue            # a readcode() that raises is C06's subject; nothing to compare the README with
            if code is not None and not contains_code(txt, code):
                return (f'readme.{who}', f'snippet_missing:{lang}', '')
        shape = tuple(fresh.shape)
        descr = txt.split('Code for reading')[0]
        if len(shape) == 1:
            if not re.search(rf'(?<![\d.]){shape[0]}(?![\d.])', descr):
                return (f'readme.{who}', 'length_not_stated', '')
        else:
            # the extents occur in the description, in order, as numbers - whatever the punctuation and line
            # layout: "(3, 2)", "3 x 2", one axis per line ...
            nums = [int(t) for t in re.findall(r'(?<![\d.])\d+(?![\d.])', descr)]
            it = iter(nums)
            if not all(any(x == y for y in it) for x in shape):
                return (f'readme.{who}', 'dimensions_not_stated', '')
        mentioned = 'metadata.json' in txt
        hm = os.path.exists(os.path.join(path, 'metadata.json')) if has_meta is None else has_meta
        if who in ('array', 'array_copy') and mentioned != bool(hm):
            return (f'readme.{who}', 'metadata_mention_' + ('stale' if mentioned else 'missing'), '')
    finally:
        shutil.rmtree(scratch, ignore_errors=True)
    return None


def check_ragged_readme(path, scratch, model_lens=None):
    """README of a ragged array and of its two sub-arrays."""
    darr = import_darr()
    for sub in ('values', 'indices'):
        r = check_array_readme(os.path.join(path, sub), scratch, who=sub)
        if r:
            return r
    rp = os.path.join(path, 'README.txt')
    if not os.path.isfile(rp):
        return ('readme.ragged', 'missing', '')
    with open(rp, 'rb') as f:
        cur = f.read()
    cp = _copy_same_name(path, scratch)
    try:
        try:
            h = darr.RaggedArray(cp, accessmode='r+')
        except Exception as e:
            return ('readme.ragged', f'copy_unopenable:{type(e).__name__}', str(e)[:200])
        _regen(h, cp)
        with open(os.path.join(cp, 'README.txt'), 'rb') as f:
            new = f.read()
        if new != cur:
            return ('readme.ragged', 'stale_differential', _firstdiff(cur, new))
        txt = cur.decode('utf-8', errors='replace')
        fresh = darr.RaggedArray(path)
        for lang in fresh.readcodelanguages:
            try:
                code = fresh.readcode(lang)
            except Exception:
                continue            # C07's subject
            if code is not None and not contains_code(txt, code):
                return ('readme.ragged', f'snippet_missing:{lang}', '')
        if model_lens is not None:
            n = len(fresh)                       # 'current' = what the array on disk holds (Darr API, fresh handle)
            flat = ' '.join(txt.split())
            head = flat.split('Example code')[0]
            if not re.search(rf'(?<![\d.]){n}(?![\d.])', head):     # tolerant of rewording: the count occurs
                return ('readme.ragged', 'count_not_stated', f'n={n}')
            # "the listed subarray dimensions are the current ones": every line that lists a subarray (nothing but
            # numbers and punctuation: index, then its dimensions) names an existing subarray and its current
            # length; which subarrays a README lists is not prescribed
            listed = 0
            for ln in txt.split('Example code')[0].splitlines():
                if not re.fullmatch(r'[\s\d:,;()\[\]x×.=\-]*', ln):
                    continue
                ints = [int(t) for t in re.findall(r'\d+', ln)]
                if len(ints) < 2:
                    continue
                k, l = ints[0], ints[1]
                if k >= n:
                    return ('readme.ragged', 'lists_nonexisting_subarray', f'k={k} n={n}')
                cur_l = int(fresh[k].shape[0])
                if cur_l != l:
                    return ('readme.ragged', 'listed_subarray_dims_not_current', f'k={k} listed={l} current={cur_l}')
                listed += 1
    finally:
        shutil.rmtree(scratch, ignore_errors=True)
    return None


def _firstdiff(a, b):
    la, lb = a.splitlines(), b.splitlines()
    for i, (x, y) in enumerate(zip(la, lb)):
        if x != y:
            return f'line {i}: {x[:80]!r} vs regenerated {y[:80]!r}'
    return f'lengths {len(la)} vs {len(lb)} lines'
