"""Self-test of dsim.readers.foreign against the snippets of the current /repo tree.

Run:  cd /verif && PYTHONPATH=/verif /venv/bin/python dsim/readers/test_foreign.py

Prints a grouped summary of every snippet the stubs do not accept as "denotes
the stored array".  Exit status is 0 unless the stubs themselves crashed
(an exception other than IllFormed / LangRuntimeError / StubLimitation).
"""
import collections
import os
import shutil
import sys
import traceback

import numpy as np

sys.path.insert(0, '/repo')
import darr  # noqa: E402

from dsim.readers import foreign as F  # noqa: E402

ROOT = f'/dev/shm/test_foreign_{os.getpid()}'
PYTHON_FAMILY = ('darr', 'numpy', 'numpymemmap', 'python')
NUMTYPES = ('int8', 'int16', 'int32', 'int64', 'uint8', 'uint16', 'uint32', 'uint64',
            'float16', 'float32', 'float64', 'complex64', 'complex128')
findings = collections.defaultdict(list)      # (kind, language, reason) -> [case, ...]
unverified = collections.defaultdict(set)     # note -> {language}
counts = collections.Counter()
crashes = []


def reason_token(exc):
    return ':'.join(str(exc).split(':')[:2])


def rand_values(rng, dtype, n):
    dt = np.dtype(dtype)
    if dt.kind in 'iu':
        info = np.iinfo(dt)
        vals = rng.integers(info.min, info.max, size=n, dtype=dt.newbyteorder('='), endpoint=True)
        if dt.itemsize == 4 and dt.kind == 'i':
            vals[vals == info.min] += 1           # INT_MIN is NA in R; not a Darr matter
        return vals
    if dt.kind == 'f':
        return (rng.standard_normal(n) * 100).astype(dt.newbyteorder('='))
    return ((rng.standard_normal(n) + 1j * rng.standard_normal(n)) * 100).astype(dt.newbyteorder('='))


def wide(a):
    a = np.asarray(a)
    if a.dtype.kind == 'c':
        return a.astype(np.complex128)
    if a.dtype.kind == 'f':
        return a.astype(np.float64)
    if a.dtype.kind in 'iub':
        return a.astype(object)
    return a


def same(a, b):
    a, b = wide(a), wide(b)
    if a.shape != b.shape:
        return False
    if a.dtype == object or b.dtype == object:
        return bool(np.all(a.astype(object) == b.astype(object))) if a.size else True
    return bool(np.array_equal(a, b))


def expected_for(language, stored):
    stored = np.asarray(stored)
    return stored if language == 'mathematica' else stored.transpose()


def compare(language, got, want, case, what):
    got2 = F.conform(language, got, want.shape)
    if language in ('idl', 'mathematica') and want.size == 0 and got.shape == (0,):
        counts[f'{language}: empty subarray returned as dimensionless empty ([] / {{}})'] += 1
        return True
    if got2.shape != want.shape:
        findings[('wrong_shape', language, f'{what}: got {got.shape} want {want.shape}')].append(case)
        return False
    if not same(got2, want):
        findings[('wrong_value', language, what)].append(case)
        return False
    return True


def guarded(fn, language, case, what):
    """Run fn(); classify stub exceptions; return result or None."""
    try:
        return fn()
    except F.IllFormed as e:
        findings[('IllFormed', language, f'{what}: {reason_token(e)}')].append(f'{case} [{e}]')
    except F.LangRuntimeError as e:
        findings[('runtime_error', language, f'{what}: {reason_token(e)}')].append(f'{case} [{e}]')
    except F.StubLimitation as e:
        findings[('STUB_LIMITATION', language, f'{what}: {reason_token(e)}')].append(f'{case} [{e}]')
    except Exception:
        crashes.append((language, case, traceback.format_exc()))
    return None


def test_arrays():
    rng = np.random.default_rng(12345)
    path = f'{ROOT}/a.darr'
    for numtype in NUMTYPES:
        for order in '<>':
            for rank in (1, 2, 3, 4):
                shape = (2, 3, 4, 5)[:rank]
                data = rand_values(rng, numtype, int(np.prod(shape))).reshape(shape)
                dtype = np.dtype(numtype).newbyteorder(order)
                a = darr.asarray(path, data.astype(dtype), overwrite=True)
                stored = np.array(a[:])
                assert same(stored, data)
                for language in a.readcodelanguages:
                    if language in PYTHON_FAMILY:
                        continue
                    assert language in F.ARRAY_LANGS, language
                    case = f'{numtype} {"little" if order == "<" else "big"} rank{rank}'
                    counts['array snippets'] += 1
                    res = guarded(lambda: F.run_array_snippet(language, a.readcode(language), path),
                                  language, case, 'array')
                    if res is None:
                        continue
                    for note in res.unverified:
                        unverified[note].add(language)
                    if compare(language, res.value, expected_for(language, stored), case, 'array'):
                        counts['array snippets ok'] += 1
                    # absolute paths must work from any directory
                    res2 = guarded(lambda: F.run_array_snippet(language, a.readcode(language, abspath=True),
                                                               '/nonexistent'), language, case, 'array abspath')
                    if res2 is not None:
                        compare(language, res2.value, expected_for(language, stored), case, 'array abspath')


LENGTHS = {1: ([2], [0]), 2: ([2, 0], [0, 3], [1, 2]), 3: ([0, 2, 1], [1, 0, 2], [2, 1, 3]),
           7: ([2, 0, 1, 3, 0, 0, 2], [0, 0, 1, 1, 2, 0, 0])}
POSITION = {'first': 0, 'second': 1, 'third': 2}


def check_ragged(language, code, path, subs, case, label=''):
    what = 'ragged' + label
    res = guarded(lambda: F.run_ragged_snippet(language, code, path), language, case, what)
    if res is None:
        return None
    for note in res.unverified:
        unverified[note].add(language)
    origin = 0 if language == 'idl' else 1
    ok = True
    for k0, sub in enumerate(subs):
        want = expected_for(language, sub)
        got = guarded(lambda: res.get(k0 + origin), language,
                      f'{case} k={k0 + origin} len={len(sub)}', what + ' get(k)')
        if got is None:
            ok = False
            continue
        kind = 'empty' if len(sub) == 0 else 'nonempty'
        ok &= compare(language, got, want, f'{case} k={k0 + origin} len={len(sub)}', f'{what} get(k) {kind}')
    guarded(lambda: res.get(len(subs) + origin) is None and
            findings[('missing_error', language, what + ' get(n+1) did not fail')].append(case),
            language, case, what + ' get(out-of-range) [expected]')
    # example statement
    if res.example_comment_k is None:
        findings[('example', language, 'no example comment found')].append(case)
        return ok
    if not res.example_bound:
        findings[('example_not_bound', language, f'{what}: example statement does not bind '
                                                 f'{res.example_var!r}')].append(case)
    if res.example_error:
        findings[('example_runtime_error', language, what + ': ' + reason_token(res.example_error))].append(case)
    if res.example_call_k != res.example_comment_k:
        findings[('example_k_mismatch', language,
                  f'{what}: comment says k={res.example_comment_k}, code uses {res.example_call_k}')].append(case)
    want_k = POSITION[res.example_position] + origin
    if res.example_comment_k != want_k:
        findings[('example_position_mismatch', language,
                  f'{what}: "{res.example_position}" is k={want_k}, comment says {res.example_comment_k}')].append(case)
    if POSITION[res.example_position] >= len(subs):
        findings[('example_subarray_missing', language, what)].append(case)
    elif res.example_value is not None:
        compare(language, res.example_value, expected_for(language, subs[POSITION[res.example_position]]),
                case, what + ' example value')
    return ok


def test_ragged():
    rng = np.random.default_rng(54321)
    path = f'{ROOT}/r.darr'
    combos = []
    for atom in ((), (2,), (2, 3)):
        for n, lens in LENGTHS.items():
            for lengths in lens:
                combos.append((atom, lengths, 'float64', 'int64'))
    for indextype in ('int8', 'uint8', 'int16', 'uint16', 'int32', 'uint32', 'int64'):
        combos.append(((2, 3), [2, 0, 1, 3, 0, 0, 2], 'float64', indextype))
        combos.append(((), [0, 2, 1], 'int32', indextype))
    for vtype in ('int8', 'uint8', 'int16', 'int32', 'uint16', 'float32', 'complex128', 'int64', 'uint64',
                  'complex64', 'float16', 'uint32'):
        combos.append(((2,), [1, 0, 2], vtype, 'int64'))
        combos.append(((2, 3), [0, 2, 1], vtype, 'int32'))
    for atom, lengths, vtype, indextype in combos:
        subs = [rand_values(rng, vtype, n * int(np.prod(atom, dtype=int))).reshape((n,) + atom)
                for n in lengths]
        try:
            ra = darr.asraggedarray(path, subs, dtype=vtype, indextype=indextype, overwrite=True)
        except Exception as e:      # e.g. index type not supported by Darr
            findings[('darr_refused', '-', f'{type(e).__name__}')].append(f'{vtype} {indextype} [{e}]')
            continue
        stored = [np.array(ra[k]) for k in range(len(ra))]
        assert all(same(s, t) for s, t in zip(stored, subs))
        case = f'atom={atom} lens={lengths} {vtype} idx={indextype}'
        for language in ra.readcodelanguages:
            if language in PYTHON_FAMILY:
                continue
            assert language in F.RAGGED_LANGS, language
            counts['ragged snippets'] += 1
            code = ra.readcode(language)
            ok = check_ragged(language, code, path, stored, case)
            if ok:
                counts['ragged snippets all get(k) ok'] += 1
            if ok is None and language == 'mathematica' and '*):\n' in code:
                # known stray ':' -- patch it to be able to judge the rest of the snippet
                check_ragged(language, code.replace('*):\n', '*)\n'), path, stored, case,
                             label=' (stray colon removed)')


def test_edges():
    """Zero subarrays, index-type limits, singleton extents, odd base paths."""
    rng = np.random.default_rng(777)
    path = f'{ROOT}/e.darr'
    # (a) ragged arrays without any subarray
    for atom in ((), (2,)):
        ra = darr.create_raggedarray(path, atom=atom, dtype='float64', overwrite=True)
        for language in ra.readcodelanguages:
            if language not in PYTHON_FAMILY:
                check_ragged(language, ra.readcode(language).replace('*):\n', '*)\n'), path, [],
                             f'NO SUBARRAYS atom={atom}', label=' (edge)')
    # (b) start index at the maximum of a small index type
    for indextype, lens in (('int8', [100, 27, 0]), ('uint8', [200, 55, 0]), ('int8', [100, 26, 1])):
        subs = [rand_values(rng, 'float64', n) for n in lens]
        ra = darr.asraggedarray(path, subs, indextype=indextype, overwrite=True)
        stored = [np.array(ra[k]) for k in range(len(ra))]
        for language in ra.readcodelanguages:
            if language not in PYTHON_FAMILY:
                check_ragged(language, ra.readcode(language).replace('*):\n', '*)\n'), path, stored,
                             f'INDEX LIMIT idx={indextype} lens={lens}', label=' (edge)')
    # (c) extents of one
    for shape in ((3, 1), (1, 3), (2, 1, 3), (1,), (1, 1), (3, 1, 1)):
        for numtype in ('int16', 'complex128', 'float32'):
            data = rand_values(rng, numtype, int(np.prod(shape))).reshape(shape)
            a = darr.asarray(path, data, overwrite=True)
            for language in a.readcodelanguages:
                if language in PYTHON_FAMILY:
                    continue
                case = f'SINGLETON shape={shape} {numtype}'
                res = guarded(lambda: F.run_array_snippet(language, a.readcode(language), path), language, case,
                              'array (edge)')
                if res is not None:
                    compare(language, res.value, expected_for(language, data), case, 'array (edge)')
    for atom in ((1,), (1, 3), (3, 1)):
        lens = [2, 0, 1]
        subs = [rand_values(rng, 'float64', n * int(np.prod(atom))).reshape((n,) + atom) for n in lens]
        ra = darr.asraggedarray(path, subs, overwrite=True)
        for language in ra.readcodelanguages:
            if language not in PYTHON_FAMILY:
                check_ragged(language, ra.readcode(language).replace('*):\n', '*)\n'), path, subs,
                             f'SINGLETON atom={atom} lens={lens}', label=' (edge)')
    # (d) a base path that starts with a digit
    os.makedirs(f'{ROOT}/2020data', exist_ok=True)
    data = rand_values(rng, 'int32', 6).reshape(2, 3)
    a = darr.asarray(f'{ROOT}/2020data/x.darr', data, overwrite=True)
    for language in a.readcodelanguages:
        if language in PYTHON_FAMILY:
            continue
        code = a.readcode(language, basepath='2020data/x.darr')
        res = guarded(lambda: F.run_array_snippet(language, code, ROOT), language, 'basepath 2020data/x.darr',
                      'array (edge)')
        if res is not None:
            compare(language, res.value, expected_for(language, data), 'basepath 2020data/x.darr', 'array (edge)')


def test_mutants():
    """A changed template must give a verdict, not a stub crash."""
    path = f'{ROOT}/m.darr'
    data = (np.arange(24, dtype='<i2') * 1000 - 12000).reshape(2, 3, 4)
    a = darr.asarray(path, data, overwrite=True)
    muts = {
        'matlab': [("'*int16'", "'*int32'"), ("'*int16'", "'*uint16'"), ('ieee-le', 'ieee-be'), ('[4, 3, 2]', '[2, 3, 4]'),
                   ('fclose(fileid);\n', ''), ('fread(fileid, 24,', 'fread(fileid, [4, 3, 2],'), ("'*int16'", "'*int17'")],
        'R': [('size=2', 'size=4'), ('"little"', '"big"'), ('c(4, 3, 2)', 'c(2, 3, 4)'), ('close(fileid)\n', ''),
              ('integer()', 'numeric()'), ('signed=TRUE', 'signed=FALSE'), ('"rb"', '"r"')],
        'scilab': [('"sl"', '"sb"'), ('"sl"', '"il"'), ('mclose(fileid);\n', ''), ('"sl"', '"xl"')],
        'julia_ver1': [('Int16', 'Int32'), ('ltoh', 'ntoh'), ('4, 3, 2', '2, 3, 4'), ('close(fileid);\n', ''),
                       ('Int16', 'Int17'), ('read!', 'read')],
        'julia_ver0': [('Int16', 'UInt16'), ('(4, 3, 2)', '(2, 3, 4)')],
        'idl': [('data_type=2', 'data_type=3'), ('"little"', '"big"'), ('[4, 3, 2]', '[2, 3, 4]'), ('data_type=2', 'data_type=7')],
        'mathematica': [('Integer16', 'Integer32'), ('-> -1', '-> +1'), ('{2, 3, 4}', '{4, 3, 2}'), ('Integer16', 'Int16'),
                        ('];\n', ']:\n')],
        'maple': [('integer[2]', 'integer[4]'), ('=little', '=big'), ('[4, 3, 2]', '[2, 3, 4]'), (':=', '='),
                  ('FileTools[Binary][Close]("arrayvalues.bin");\n', ''), ('integer[2]', 'integer[3]')],
    }
    for language, pairs in muts.items():
        base = a.readcode(language)
        for old, new in pairs:
            counts['array mutants'] += 1
            assert old in base, (language, old, base)
            code = base.replace(old, new)
            try:
                res = F.run_array_snippet(language, code, path)
                got = F.conform(language, res.value, data.T.shape if language != 'mathematica' else data.shape)
                detected = not (got.shape == expected_for(language, data).shape and same(got, expected_for(language, data)))
            except (F.IllFormed, F.LangRuntimeError):
                detected = True
            except F.StubLimitation as e:
                findings[('STUB_LIMITATION', language, f'mutant {old!r}->{new!r}')].append(str(e))
                continue
            except Exception:
                crashes.append((language, f'mutant {old!r}->{new!r}', traceback.format_exc()))
                continue
            if detected:
                counts['array mutants detected'] += 1
            else:
                findings[('MUTANT_MISSED', language, f'{old!r}->{new!r}')].append('array')
    # ragged mutants
    rpath = f'{ROOT}/mr.darr'
    subs = [np.arange(12.).reshape(2, 2, 3), np.zeros((0, 2, 3)), 100 + np.arange(18.).reshape(3, 2, 3)]
    ra = darr.asraggedarray(rpath, subs, overwrite=True)
    rmuts = {
        'R': [('i[1,k] + 1', 'i[1,k]'), ('i[1,k]', 'i[k,1]'), ('v[,,starti', 'v[,starti'), ('if (starti > endi)', 'if (starti >= endi)')],
        'matlab': [('i(1,k)+1', 'i(1,k)'), ('v(:,:,', 'v(:,'), ('i(2,k)', 'i(2,k)-1'), ('i(1,k)', 'i(k,1)')],
        'scilab': [('i(1,k)+1', 'i(1,k)'), ('v(:,:,', 'v(:,:,:,')],
        'julia': [('i[1,k]+1', 'i[1,k]'), ('v[:,:,', 'v[:,'), ('i[2,k]', 'i[k,2]')],
        'idl': [('i[1,k]-1', 'i[1,k]'), ('v[*,*,', 'v[*,'), ('i[0,k]:', 'i[0,k]+1:')],
        'mathematica': [('i[[l,1]] + 1', 'i[[l,1]]'), ('i[[l,2]]', 'i[[2,l]]'), ('starti;;endi', 'starti;endi')],
        'maple': [('i(1,k) + 1', 'i(1,k)'), ('v(..,.., ', 'v(.., '), ('i(2,k)', 'i(k,2)')],
    }
    for language, pairs in rmuts.items():
        base = ra.readcode(language).replace('*):\n', '*)\n')
        origin = 0 if language == 'idl' else 1
        for old, new in pairs:
            counts['ragged mutants'] += 1
            assert old in base, (language, old, base)
            code = base.replace(old, new)
            detected = False
            try:
                res = F.run_ragged_snippet(language, code, rpath)
                for k0, sub in enumerate(subs):
                    want = expected_for(language, sub)
                    try:
                        got = F.conform(language, res.get(k0 + origin), want.shape)
                        detected |= not (got.shape == want.shape and same(got, want))
                    except F.LangRuntimeError:
                        detected = True
            except (F.IllFormed, F.LangRuntimeError):
                detected = True
            except F.StubLimitation as e:
                findings[('STUB_LIMITATION', language, f'ragged mutant {old!r}->{new!r}')].append(str(e))
                continue
            except Exception:
                crashes.append((language, f'ragged mutant {old!r}->{new!r}', traceback.format_exc()))
                continue
            if detected:
                counts['ragged mutants detected'] += 1
            else:
                findings[('MUTANT_MISSED', language, f'{old!r}->{new!r}')].append('ragged')


def main():
    os.makedirs(ROOT, exist_ok=True)
    try:
        test_arrays()
        test_ragged()
        test_edges()
        test_mutants()
    finally:
        shutil.rmtree(ROOT, ignore_errors=True)
    print('== counts')
    for k, v in counts.items():
        print(f'   {k}: {v}')
    print('== findings (kind | language | reason : number of cases, first cases)')
    for (kind, language, reason), cases in sorted(findings.items()):
        if 'get(out-of-range) [expected]' in reason:
            continue
        print(f'-- {kind} | {language} | {reason} : {len(cases)}')
        for c in cases[:3]:
            print(f'      {c}')
    print('== out-of-range access (expected to fail in every language)')
    for (kind, language, reason), cases in sorted(findings.items()):
        if 'get(out-of-range) [expected]' in reason:
            print(f'   {language}: {kind} {reason.split(": ")[-1]} x{len(cases)}')
    print('== unverified notes')
    for note, langs in sorted(unverified.items()):
        print(f'   [{",".join(sorted(langs))}] {note}')
    print(f'== stub crashes: {len(crashes)}')
    for language, case, tb in crashes[:5]:
        print(language, case)
        print(tb)
    return 1 if crashes else 0


if __name__ == '__main__':
    sys.exit(main())
