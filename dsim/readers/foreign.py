"""Stub interpreters for the non-Python read-code snippets that Darr generates.

No R / Matlab / Scilab / Julia / IDL / Mathematica / Maple interpreter is
available, so this module contains a small tokenizer, a Pratt expression
parser and one evaluator per language family, written from the languages'
documented semantics (see DESIGN.md, Appendix B).  Policy: strict where the
semantics are certain, accept-and-note (``unverified``) where they are not.

Three outcomes are kept apart:

* ``IllFormed``        the snippet is not valid code in its language, or calls
                       a builtin with arguments of the wrong kind/position;
* ``LangRuntimeError`` the code is valid but the language would raise an error
                       while running it (index out of range, size mismatch);
* ``StubLimitation``   the stub cannot judge (construct not modelled).

Arrays are numpy arrays in the *language's own* axis order: ``value.shape`` is
what the language reports as dimensions and ``value[i1-1, i2-1, ...]`` is the
language's ``a(i1, i2, ...)``.  Use :func:`conform` to compare against an
expected shape modulo the language's implicit singleton-dimension rules.
"""
from __future__ import annotations

import os
import re
from dataclasses import dataclass, field

import numpy as np

ARRAY_LANGS = ('R', 'matlab', 'scilab', 'julia_ver0', 'julia_ver1', 'idl',
               'mathematica', 'maple')
RAGGED_LANGS = ('R', 'matlab', 'scilab', 'julia', 'idl', 'mathematica', 'maple')
COLUMN_MAJOR = ('R', 'matlab', 'scilab', 'julia', 'julia_ver0', 'julia_ver1',
                'idl', 'maple')


class IllFormed(Exception):
    """Snippet is not valid code of its language / misuses a builtin."""


class LangRuntimeError(Exception):
    """Valid code, but the language raises an error when running it."""


class StubLimitation(Exception):
    """The stub does not model this construct; no verdict possible."""


@dataclass
class ArrayResult:
    language: str
    value: np.ndarray
    unverified: list
    files_left_open: list = field(default_factory=list)


class RaggedResult:
    def __init__(self, language, getter, unverified):
        self.language = language
        self._getter = getter
        self.unverified = unverified
        self.files_left_open = []
        self.example_comment_k = None     # N of "(k=N)" in the example comment
        self.example_position = None      # 'first' | 'second' | 'third'
        self.example_call_k = None        # literal index used by the example code
        self.example_var = 'sa'
        self.example_bound = False
        self.example_value = None
        self.example_error = None

    def get(self, k):
        """Subarray number `k` (language-native index origin)."""
        return self._getter(k)


def conform(language, value, shape):
    """Return `value` reshaped to `shape` when, by the language's own rules,
    both denote the same array (Matlab/Scilab/IDL: implicit trailing singleton
    dimensions, vectors for rank 1; R: `drop=TRUE` of subscripting removes
    extents of 1).  Otherwise `value` is returned unchanged."""
    value = np.asarray(value)
    shape = tuple(int(s) for s in shape)
    if value.shape == shape:
        return value

    def strip(s):
        s = list(s)
        while s and s[-1] == 1:
            s.pop()
        return s
    if language in ('matlab', 'scilab', 'idl'):
        if strip(value.shape) == strip(shape):
            return value.reshape(shape)
        if language != 'idl' and len(shape) == 1 and value.ndim == 2 \
                and 1 in value.shape and value.size == shape[0]:
            return value.reshape(shape)
        if language != 'idl' and len(shape) == 1 and shape[0] == 0 and value.size == 0:
            return value.reshape(shape)
    elif language == 'R':
        if [s for s in value.shape if s != 1] == [s for s in shape if s != 1]:
            return value.reshape(shape)
    elif value.ndim == 0 and int(np.prod(shape)) == 1:
        return value.reshape(shape)
    return value


# ---------------------------------------------------------------------------
# Lexer
# ---------------------------------------------------------------------------

@dataclass
class Lex:
    line_comments: tuple = ()
    block_comments: tuple = ()          # (open, close, nested)
    dq: str = None                      # escape style of "..." : 'double'|'backslash'
    sq: str = None                      # escape style of '...'
    ops: tuple = ()
    id_re: str = r'[A-Za-z_][A-Za-z0-9_]*'
    num_suffix: str = ''
    fold_case: bool = False
    sq_transpose: bool = False          # Matlab/Scilab: quote after operand = transpose
    continuation: str = None
    newlines: bool = True               # emit 'nl' tokens


class Tok:
    __slots__ = ('kind', 'text', 'val', 'line', 'sp', 'after_comment', 'quote')

    def __init__(self, kind, text, val, line, sp, after_comment=False, quote=None):
        self.kind, self.text, self.val, self.line = kind, text, val, line
        self.sp, self.after_comment, self.quote = sp, after_comment, quote

    def __repr__(self):
        return f'{self.kind}:{self.text!r}@{self.line}'


_COMMON_OPS = ('(', ')', '[', ']', '{', '}', ',', ';', '+', '-', '*', '/', '^',
               '<', '>', '=', ':', '!', '&', '|', '~', '@', '.', '?', '$', '\\', '%')

LEX = {
    'R': Lex(line_comments=('#',), dq='backslash', sq='backslash',
             ops=('<<-', '<-', '->', '==', '!=', '<=', '>=', '&&', '||', '%%') + _COMMON_OPS,
             id_re=r'(?:[A-Za-z]|\.(?![0-9]))[A-Za-z0-9._]*', num_suffix='L?'),
    'matlab': Lex(line_comments=('%',), dq='double', sq='double', sq_transpose=True,
                  ops=('==', '~=', '<=', '>=', '&&', '||', '.*', './', '.^', ".'", '.\\')
                  + _COMMON_OPS + ("'",), continuation='...'),
    'scilab': Lex(line_comments=('//',), block_comments=(('/*', '*/', False),),
                  dq='double', sq='double', sq_transpose=True,
                  ops=('==', '~=', '<>', '<=', '>=', '&&', '||', '.*', './', '.^', ".'")
                  + _COMMON_OPS + ("'",), id_re=r'[A-Za-z_%#!$?][A-Za-z0-9_#!$?]*',
                  continuation='..'),
    'julia': Lex(line_comments=('#',), block_comments=(('#=', '=#', True),), dq='backslash',
                 ops=('...', '->', '==', '!=', '<=', '>=', '&&', '||', '::', '.+', '.-', '.*', './')
                 + _COMMON_OPS + ("'",), id_re=r'[A-Za-z_][A-Za-z0-9_]*!?(?!=)|[A-Za-z_][A-Za-z0-9_]*'),
    'idl': Lex(line_comments=(';',), dq='double', sq='double', fold_case=True,
               ops=('->', '##', '&&', '||', '++', '--') + _COMMON_OPS + ('#',),
               id_re=r'[A-Za-z_!][A-Za-z0-9_$]*', num_suffix='(?:ULL|LL|UL|US|[BSLUD])?',
               continuation='$'),
    'mathematica': Lex(block_comments=(('(*', '*)', True),), dq='backslash',
                       ops=(':=', '->', ';;', '==', '!=', '<=', '>=', '&&', '||', '/@', '@@', '//',
                            '/.', '<>') + _COMMON_OPS + ('_', '#', "'"),
                       id_re=r'[A-Za-z$][A-Za-z0-9$]*'),
    'maple': Lex(line_comments=('#',), dq='backslash', ops=(':=', '::', ':-', '..', '<>', '<=', '>=',
                 '->') + _COMMON_OPS + ("'", '`'), newlines=False),
}

_NUM_RE = r'(?:\d+(?:\.(?!\.)\d*)?|\.\d+)(?:[eE][+-]?\d+)?'


def tokenize(src, lang):
    """-> (tokens, comments) ; comments is a list of (line, text)."""
    lx = LEX[lang]
    num_re = re.compile(_NUM_RE + lx.num_suffix, re.I if lx.fold_case else 0)
    id_re = re.compile(lx.id_re)
    toks, comments = [], []
    pos, line, n = 0, 1, len(src)
    sp, after_comment = True, False

    def err(reason, detail):
        raise IllFormed(f'{lang}:{reason}: line {line}: {detail}')

    def add(kind, text, val=None, quote=None):
        nonlocal sp, after_comment
        toks.append(Tok(kind, text, val, line, sp, after_comment, quote))
        sp = after_comment = False

    while pos < n:
        c = src[pos]
        if c == '\n':
            if lx.newlines:
                add('nl', '\n')
            line += 1
            pos += 1
            sp, after_comment = True, False
            continue
        if c in ' \t\r\f':
            pos += 1
            sp = True
            continue
        if lx.continuation and src.startswith(lx.continuation, pos) and \
                not (lang == 'scilab' and not re.match(r'\.\.+[ \t]*(//.*)?\n', src[pos:])) and \
                not (lang == 'idl' and toks and toks[-1].kind == 'id' and not sp):
            eol = src.find('\n', pos)
            eol = n if eol < 0 else eol
            pos, line, sp = min(eol + 1, n), line + 1, True
            continue
        blk = next((b for b in lx.block_comments if src.startswith(b[0], pos)), None)
        if blk:
            op_, cl_, nested = blk
            depth, j = 1, pos + len(op_)
            while depth:
                if j >= n:
                    err('unterminated_comment', src[pos:pos + 30])
                if src.startswith(cl_, j):
                    depth, j = depth - 1, j + len(cl_)
                elif nested and src.startswith(op_, j):
                    depth, j = depth + 1, j + len(op_)
                else:
                    j += 1
            comments.append((line, src[pos + len(op_):j - len(cl_)]))
            line += src.count('\n', pos, j)
            pos, sp, after_comment = j, True, True
            continue
        lc = next((s for s in lx.line_comments if src.startswith(s, pos)), None)
        if lc:
            eol = src.find('\n', pos)
            eol = n if eol < 0 else eol
            comments.append((line, src[pos + len(lc):eol]))
            pos = eol
            continue
        prev = toks[-1] if toks else None
        is_quote = (c == '"' and lx.dq) or (c == "'" and lx.sq)
        if is_quote and c == "'" and lx.sq_transpose and prev is not None and not sp and \
                (prev.kind in ('num', 'id') or prev.text in (')', ']', '}', "'", ".'")):
            is_quote = False
        if is_quote:
            style = lx.dq if c == '"' else lx.sq
            j, out = pos + 1, []
            while True:
                if j >= n or src[j] == '\n':
                    err('unterminated_string', src[pos:pos + 30])
                ch = src[j]
                if ch == c:
                    if style == 'double' and src.startswith(c, j + 1):
                        out.append(c)
                        j += 2
                        continue
                    break
                if ch == '\\' and style == 'backslash':
                    nxt = src[j + 1:j + 2]
                    out.append({'n': '\n', 't': '\t', '\\': '\\', '"': '"', "'": "'"}.get(nxt, '\\' + nxt))
                    j += 2
                    continue
                out.append(ch)
                j += 1
            add('str', src[pos:j + 1], ''.join(out), quote=c)
            pos = j + 1
            continue
        m = num_re.match(src, pos)
        if m and (c.isdigit() or c == '.'):
            text = m.group(0)
            core = re.match(_NUM_RE, text).group(0)
            isint = re.fullmatch(r'\d+', core) is not None
            add('num', text, int(core) if isint else float(core))
            pos = m.end()
            continue
        m = id_re.match(src, pos)
        if m:
            text = m.group(0)
            add('id', text.lower() if lx.fold_case else text, text)
            pos = m.end()
            continue
        op = next((o for o in lx.ops if src.startswith(o, pos)), None)
        if op is None:
            err('bad_character', repr(c))
        add('op', op)
        pos += len(op)
    if lx.newlines:
        add('nl', '\n')
    add('eof', '')
    return toks, comments
