"""Replica engine (C15): a source reached by a prefix history, copy() with
dtype/chunklen/accessmode, then a seeded mutation sequence on either side
with independence snapshots; archive() per compression type with extraction
and refusal of existing archives."""
import copy as _copy
import os
import tarfile
import numpy as np

from ..core import Engine, import_darr, HarnessError
from .. import data as D
from .. import meta as M
from ..oracles import snapshot, snap_diff, json_equal
from . import arrayhist as AH
from . import raggedhist as RH
from .arrayhist import Viol, Diverged

_AGEN = AH.ArrayHistory()
_AGEN.weights = dict(append=20, iterappend=8, setitem=12, truncate=12, mode=0, reopen=6,
                     append_bad=0, truncate_bad=0, meta=14, recreate=0)
_RGEN = RH.RaggedHistory()
_RGEN.weights = dict(append=24, iterappend=10, truncate=14, mode=0, reopen=6, append_bad=0,
                     truncate_bad=0, getbad=0, iter=0, meta=14)
_RGEN.create_empty_p = 0.15


def _nonneg(op):
    """make every data spec of an op exactly castable"""
    op = _copy.deepcopy(op)
    for key in ('data', 'item'):
        if key in op and isinstance(op[key], dict) and 'gen' in op[key]:
            op[key]['gen'] = 'nonneg'
    for key in ('chunks', 'items'):
        if key in op:
            for d in op[key]:
                d['gen'] = 'nonneg'
    return op


class Replica(Engine):
    prop = 'C15'
    quick_runs = 2500
    thorough_runs = 50000
    batch = 20

    def gen(self, rng, i, tier):
        ragged = rng.random() < 0.45
        G = _RGEN if ragged else _AGEN
        create = G.gen_create(rng)
        create['mode'] = 'r+'
        if rng.random() < 0.5:
            create['metadata'] = M.gen_dict(rng, n=rng.choice([1, 2, 3]))
        if not ragged and rng.random() < 0.2:
            if 'data' in create:
                create['data']['rows'] = 0
            else:
                create['shape'][0] = 0
        if ragged and create.get('items') and rng.random() < 0.15:
            for it in create['items']:
                it['rows'] = 0          # subarrays, but no values
        ops = [create]
        for _ in range(rng.choice([0, 0, 1, 2, 3])):
            ops.append(G.gen_op(rng))
        cdtype = rng.choice([None, None, D.pick_dtype(rng), rng.choice(D.NUMTYPES)])
        cp = {'op': 'copy', 'dtype': cdtype, 'mode': rng.choice(['r', 'r+']),
              'chunklen': rng.choice([None, 1, 2, 3, 1000]), 'pathform': rng.choice(['str', 'Path'])}
        ops.append(cp)
        if cdtype is not None:
            ops = [_nonneg(o) for o in ops]
        for _ in range(rng.randint(0, 6)):
            o = G.gen_op(rng)
            o['side'] = rng.choice(['src', 'copy'])
            ops.append(_nonneg(o) if cdtype is not None else o)
        r = rng.random()
        if r < 0.45:
            ops.append({'op': 'archive', 'side': rng.choice(['src', 'copy']), 'ctype': rng.choice(['xz', 'gz', 'bz2', 'gz', 'bz2']),
                        'existing': rng.random() < 0.4, 'overwrite': rng.random() < 0.5, 'explicit': rng.random() < 0.5})
        elif r < 0.52:
            ops.append({'op': 'archive', 'side': 'src', 'ctype': rng.choice(['zip', 'lzma', 'XZ', '', 'tar']),
                        'existing': False, 'overwrite': False, 'explicit': rng.random() < 0.5})
        if rng.random() < 0.35:
            ops.append({'op': 'delete', 'side': rng.choice(['src', 'copy'])})
        return {'engine': 'Replica', 'prop': 'C15', 'ragged': ragged, 'ops': ops}

    def shrink_keep_prefix(self, sc):
        return 1

    def simplify(self, sc):
        G = _RGEN if sc['ragged'] else _AGEN
        for c in G.simplify(sc):
            c['ragged'] = sc['ragged']
            yield c
        for i, op in enumerate(sc['ops']):
            if op['op'] == 'copy':
                for key, val in (('dtype', None), ('chunklen', None), ('mode', 'r+'), ('pathform', 'str')):
                    if op.get(key) != val:
                        c = _copy.deepcopy(sc)
                        c['ops'][i][key] = val
                        yield c

    def features(self, sc, v):
        f = ['ragged' if sc['ragged'] else 'array']
        for op in sc['ops']:
            if op['op'] == 'copy':
                f.append('copy_dtype=' + ('none' if op['dtype'] is None else 'given'))
        return f

    def rule(self):
        return ('source from create + 0-3 prefix ops (Array incl. 0 rows, RaggedArray incl. no subarrays, with/without nested '
                'metadata); copy(path, dtype in {None, any of 26}, chunklen, accessmode); then 0-6 mutations (append, '
                'iterappend, setitem, truncate, metadata, restart) on either side with a byte snapshot of the other side '
                'before/after; optional archive(xz|gz|bz2|invalid, existing archive, overwrite) with extraction; optional '
                'delete of one side; non-trivial = the copy completed and at least one later mutation, archive or delete '
                'was checked for independence')

    def nontrivial(self, scenario, stats):
        return (stats.get('probes') or {}).get('independence_checked', 0) >= 1 or \
            (stats.get('probes') or {}).get('archive_extracted', 0) >= 1

    def run(self, sc, sandbox, emit):
        darr = import_darr()
        r = _Run(self, darr, sc, sandbox, emit)
        viol = None
        try:
            r.execute()
        except Viol as v:
            viol = {'oracle': v.oracle, 'signature': v.signature, 'op_index': r.idx, 'op': r.cur, 'detail': v.detail}
            emit({'step': r.idx, 'violation': v.oracle + ':' + v.signature})
        except Diverged as dv:
            # an append/truncate/... on either side raised where the model accepts (or the reverse): C03/C04's subject
            r.probe('history_ended_outcome_not_this_propertys_subject')
            emit({'step': r.idx, 'ended': str(dv)})
        return {'violation': viol, 'stats': r.stats()}


class _Run:
    def __init__(self, eng, darr, sc, sb, emit):
        self.eng, self.darr, self.sc, self.sb, self.emit = eng, darr, sc, sb, emit
        self.ragged = sc['ragged']
        cls = RH._RState if self.ragged else AH._State
        self.src = cls(_RGEN if self.ragged else _AGEN, darr, sb, emit, {'model', 'fresh', 'metacontent'})
        self.cls = cls
        self.cp = None
        self.idx = 0
        self.cur = None
        self.probes = {}

    def probe(self, n):
        self.probes[n] = self.probes.get(n, 0) + 1

    def stats(self):
        s = self.src.stats()
        for k, v in self.probes.items():
            s['probes'][k] = s['probes'].get(k, 0) + v
        if self.cp is not None:
            c = self.cp.stats()
            s['steps'] += c['steps']
            s['mutations_ok'] = s.get('mutations_ok', 0) + c.get('mutations_ok', 0)
            s['transitions'] = sorted(set(s['transitions']) | set('copy:' + t for t in c['transitions']))
            for k, v in c['probes'].items():
                s['probes'][k] = s['probes'].get(k, 0) + v
        return s

    def side(self, name):
        return self.src if name == 'src' else self.cp

    def alive(self, st):
        return st is not None and st.h is not None

    def execute(self):
        for idx, op in enumerate(self.sc['ops']):
            self.idx, self.cur = idx, op['op']
            self.src.idx = idx
            if self.cp is not None:
                self.cp.idx = idx
            k = op['op']
            if k == 'create':
                self.src.step(op)
            elif k == 'copy':
                self.do_copy(op)
            elif k == 'archive':
                self.do_archive(op)
            elif k == 'delete':
                self.do_delete(op)
            else:
                side = op.get('side', 'src')
                st = self.side(side)
                if not self.alive(st):
                    continue
                other = self.cp if st is self.src else self.src
                pre = snapshot(other.path) if self.alive(other) else None
                if st.mode != 'r+' and k not in ('reopen', 'mode'):
                    st.h.accessmode = 'r+'
                    st.mode = 'r+'
                before = st.mutations_ok
                st.step(op)
                if pre is not None:
                    d = snap_diff(pre, snapshot(other.path))
                    if d:
                        raise Viol('replica.independence', f'{k}_on_{side}_changed_other', d)
                    self.check_side(other, 'other_after_' + k)
                    if st.mutations_ok > before and self.cp is not None:
                        self.probe('independence_checked')

    def check_side(self, st, what):
        try:
            fresh = (self.darr.RaggedArray if self.ragged else self.darr.Array)(st.path)
            st.observe(fresh, 'replica.' + what)
        except Viol:
            raise
        except Exception as e:
            raise Viol('replica.' + what, f'raises:{type(e).__name__}', str(e)[:200])

    def do_copy(self, op):
        if self.cp is not None or not self.alive(self.src):
            return
        src = self.src
        path2 = os.path.join(self.sb, 'copy.darr')
        import pathlib
        target = pathlib.Path(path2) if op.get('pathform') == 'Path' else path2
        dtype = None if op['dtype'] is None else np.dtype(op['dtype'])
        pre = snapshot(src.path)
        try:
            with np.errstate(all='ignore'):
                if self.ragged:
                    h2 = src.h.copy(target, dtype=dtype, accessmode=op['mode'])
                else:
                    h2 = src.h.copy(target, dtype=dtype, chunklen=op['chunklen'], accessmode=op['mode'])
        except Exception as e:
            tag = 'empty_source' if (self.ragged and not src.L) or (not self.ragged and src.model.shape[0] == 0) else 'nonempty_source'
            raise Viol('replica.copy', f'raises:{type(e).__name__}:{tag}', str(e)[:300])
        d = snap_diff(pre, snapshot(src.path))
        if d:
            raise Viol('replica.copy', 'source_changed', d)
        cp = self.cls(src.eng, self.darr, self.sb, self.emit, {'model', 'fresh', 'metacontent'})
        cp.path = path2
        cp.scratch = os.path.join(self.sb, '_scratch2')
        cp.h = h2
        cp.mode = op['mode']
        cp.meta = dict(src.meta)
        with np.errstate(all='ignore'):
            if self.ragged:
                tdt = src.dtype if dtype is None else dtype
                cp.L = [a.astype(tdt) for a in src.L]
                # the copy's index type is not stated (pinned tree: int64; keeping the source's is as faithful):
                # the model follows what the copy's own description says
                try:
                    import json as _json
                    with open(os.path.join(path2, 'indices', 'arraydescription.json'), encoding='utf-8') as f:
                        it = _json.load(f)['numtype']
                except Exception:
                    it = 'int64'
                cp.atom, cp.dtype, cp.indextype = src.atom, np.dtype(tdt), it
                cp.oracles.discard('indextype')
            else:
                cp.model = src.model.astype(src.model.dtype if dtype is None else dtype)
        self.cp = cp
        if not isinstance(h2, self.darr.RaggedArray if self.ragged else self.darr.Array):
            self.probe('copy_returned_another_class')        # recorded; it is used through the same interface below
        if h2.accessmode != op['mode']:
            self.probe('copy_returned_in_another_accessmode')      # recorded; the statement does not speak of it
            cp.mode = h2.accessmode
        cp.observe(h2, 'replica.copy_returned')
        self.check_side(cp, 'copy_fresh')
        r = M.check_meta(h2.metadata, cp.meta, os.path.join(path2, 'metadata.json'), 'copy', content_only=True)
        if r:
            raise Viol('replica.copy_metadata', r[1], r[2])
        self.probe('copied')
        if dtype is not None:
            self.probe('copied_with_dtype')
        if (self.ragged and not src.L) or (not self.ragged and src.model.shape[0] == 0):
            self.probe('copied_empty_source')
        self.emit({'step': self.idx, 'op': 'copy', 'out': 'ok'})

    def do_delete(self, op):
        st = self.side(op['side'])
        other = self.cp if st is self.src else self.src
        if not self.alive(st):
            return
        pre = snapshot(other.path) if self.alive(other) else None
        if st.mode != 'r+':
            st.h.accessmode = 'r+'
        try:
            (self.darr.delete_raggedarray if self.ragged else self.darr.delete_array)(st.h)
        except Exception as e:
            raise Viol('replica.delete', f'raises:{type(e).__name__}', str(e)[:200])
        st.h = None
        if os.path.lexists(st.path):
            raise Viol('replica.delete', 'path_remains', '')
        if pre is not None:
            d = snap_diff(pre, snapshot(other.path))
            if d:
                raise Viol('replica.independence', f'delete_on_{op["side"]}_changed_other', d)
            self.check_side(other, 'other_after_delete')
            self.probe('independence_checked')
        self.emit({'step': self.idx, 'op': 'delete', 'side': op['side']})

    def do_archive(self, op):
        st = self.side(op['side'])
        if not self.alive(st):
            return
        ctype = op['ctype']
        valid = ctype in ('xz', 'gz', 'bz2')
        default = f'{st.path}.tar.{ctype}'
        target = os.path.join(self.sb, f'arch-{op["side"]}.tar.{ctype}') if op.get('explicit') else default
        old = None
        if op.get('existing'):
            old = b'previous archive content\n' * 3
            with open(target, 'wb') as f:
                f.write(old)
        pre_parent = snapshot(self.sb)
        pre_dir = snapshot(st.path)
        exc, ret = None, None
        try:
            ret = st.h.archive(filepath=target if op.get('explicit') else None, compressiontype=ctype,
                               overwrite=op['overwrite'])
        except Exception as e:   # noqa
            exc = e
        if snap_diff(pre_dir, snapshot(st.path)):
            raise Viol('replica.archive', 'array_directory_changed', str(snap_diff(pre_dir, snapshot(st.path))))
        if not valid:
            # the statement says nothing about unsupported compression types: only the array directory is
            # judged (above); what the call does otherwise is recorded, not demanded
            self.probe('archive_unsupported_ctype:' + (type(exc).__name__ if exc else 'accepted'))
            return
        if old is not None and not op['overwrite']:
            if exc is None:
                raise Viol('replica.archive', 'existing_replaced_without_overwrite', '')
            if not os.path.exists(target):
                raise Viol('replica.archive', 'existing_removed_by_refused_call', '')
            with open(target, 'rb') as f:
                if f.read() != old:
                    raise Viol('replica.archive', 'existing_modified_by_refused_call', '')
            self.probe('archive_existing_refused')
            return
        if exc is not None:
            raise Viol('replica.archive', f'raises:{type(exc).__name__}', str(exc)[:200])
        if not op.get('explicit') and ret is not None and os.path.exists(str(ret)):
            target = str(ret)        # where the archive goes by default is the library's choice
        ex = os.path.join(self.sb, '_extract')
        os.makedirs(ex)
        try:
            with tarfile.open(target, f'r:{ctype}') as tf:
                tf.extractall(ex, filter='fully_trusted')
        except Exception as e:
            raise Viol('replica.archive', f'unreadable:{type(e).__name__}', str(e)[:200])
        names = sorted(os.listdir(ex))
        if len(names) != 1:
            raise Viol('replica.archive', 'not_one_top_level_entry', str(names))
        a, b = snapshot(st.path), snapshot(os.path.join(ex, names[0]))
        strip = lambda s: {k: (v[0],) + tuple(v[2:]) for k, v in s.items()}   # noqa  (content, not mode bits)
        d = snap_diff(strip(a), strip(b))
        if d:
            raise Viol('replica.archive', 'extraction_differs', d)
        try:
            fresh = (self.darr.RaggedArray if self.ragged else self.darr.Array)(os.path.join(ex, names[0]))
            st.observe(fresh, 'replica.archive_extracted')
        except Viol:
            raise
        except Exception as e:
            raise Viol('replica.archive', f'extracted_unopenable:{type(e).__name__}', str(e)[:200])
        import shutil
        shutil.rmtree(ex)
        # a second call without overwrite is refused and leaves the archive it just wrote untouched
        with open(target, 'rb') as f:
            first = f.read()
        exc2 = None
        try:
            st.h.archive(filepath=target if op.get('explicit') else None, compressiontype=ctype, overwrite=False)
        except Exception as e:   # noqa
            exc2 = e
        if exc2 is None:
            raise Viol('replica.archive', 'second_call_replaced_without_overwrite', '')
        if not os.path.exists(target):
            raise Viol('replica.archive', 'existing_removed_by_refused_call', 'second archive() on the same object')
        with open(target, 'rb') as f:
            if f.read() != first:
                raise Viol('replica.archive', 'existing_modified_by_refused_call', 'second archive() on the same object')
        self.probe('archive_extracted')
        self.probe('archive:' + ctype)
        if old is not None:
            self.probe('archive_overwrote_existing')
        self.emit({'step': self.idx, 'op': 'archive', 'ctype': ctype, 'out': 'ok'})
