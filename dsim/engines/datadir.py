"""DataDir engine (C20): histories of the public DataDir methods of an
Array / RaggedArray: attempts on protected names under many spellings must
raise OSError and leave the directory byte-identical; user files round-trip,
honour overwrite and are deleted exactly."""
import copy
import os
import pathlib
import numpy as np

from ..core import Engine, import_darr, HarnessError
from .. import meta as M
from ..oracles import snapshot, snap_diff, snap_digest, json_normalise, json_equal
from .arrayhist import Viol

METHODS = ['write_txt', 'write_jsonfile', 'write_jsondict', 'update_jsondict', 'delete_files', 'open_file']
MODES = ['w', 'a', 'x', 'r+', 'rb+', 'wb', 'ab', 'w+', 'a+']
SPELL = ['str', 'Path', 'dot', 'dotdot', 'dslash', 'trail', 'sub', 'updir', 'abs', 'absPath']
USERNAMES = ['notes.txt', 'a.json', 'ü.txt', 'data.csv', 'b', 'notes.tmp', 'a.tmp', 'a.json.tmp', 'b.bak']
TEXTS = ['', 'hello', 'line1\nline2\n', 'ünïcödé ✓ 日本', 'tab\tsep', 'quote"s\\', ' trailing ', '\n\n', 'x' * 300]


class DataDirEngine(Engine):
    prop = 'C20'
    quick_runs = 6000
    thorough_runs = 120000
    batch = 50

    def gen_op(self, rng, ragged):
        r = rng.random()
        if r < 0.5:
            prot = ['arrayvalues.bin', 'arraydescription.json', 'README.txt', 'metadata.json']
            if ragged:
                prot = ['values', 'indices', 'arraydescription.json', 'README.txt', 'metadata.json',
                        'values/arrayvalues.bin', 'values/arraydescription.json', 'values/README.txt',
                        'indices/arrayvalues.bin', 'indices/arraydescription.json', 'indices/README.txt',
                        'values/metadata.json', 'indices/newfile.txt', 'values/sub/new.bin']
            return {'op': 'prot', 'method': rng.choice(METHODS), 'name': rng.choice(prot), 'spell': rng.choice(SPELL),
                    'mode': rng.choice(MODES), 'overwrite': rng.random() < 0.6, 'aslist': rng.choice(['list', 'tuple', 'mixed'])}
        k = rng.choice(['write_txt', 'write_txt', 'write_jsondict', 'write_jsondict', 'write_jsonfile', 'update_jsondict',
                        'delete_files', 'open_append', 'open_x', 'read'])
        op = {'op': k, 'name': rng.choice(USERNAMES), 'spell': rng.choice(['str', 'Path', 'dot']), 'overwrite': rng.random() < 0.5}
        if k in ('write_txt', 'open_append', 'open_x'):
            op['text'] = rng.choice(TEXTS)
        if k in ('write_jsondict', 'update_jsondict'):
            op['d'] = M.gen_dict(rng, n=rng.choice([0, 1, 2, 3]))
        if k == 'write_jsonfile':
            op['v'] = M.gen_value(rng)
        if k == 'delete_files':
            op['names'] = [rng.choice(USERNAMES + ['missing.txt']) for _ in range(rng.choice([0, 1, 2, 3]))]
        return op

    def gen(self, rng, i, tier):
        ragged = rng.random() < 0.45
        create = {'op': 'create', 'ragged': ragged, 'meta': rng.random() < 0.5, 'mode': rng.choice(['r', 'r+']),
                  'sub': rng.random() < 0.6, 'relative': rng.random() < 0.35}
        ops = [create] + [self.gen_op(rng, ragged) for _ in range(rng.randint(3, 14))]
        return {'engine': 'DataDirEngine', 'prop': 'C20', 'ops': ops}

    def shrink_keep_prefix(self, sc):
        return 1

    def simplify(self, sc):
        for i, op in enumerate(sc['ops']):
            if op['op'] == 'prot':
                for key, val in (('spell', 'str'), ('mode', 'w'), ('overwrite', True)):
                    if op[key] != val:
                        c = copy.deepcopy(sc)
                        c['ops'][i][key] = val
                        yield c
            if op['op'] == 'create':
                for key, val in (('ragged', False), ('meta', False), ('sub', False), ('relative', False)):
                    if op[key] != val:
                        c = copy.deepcopy(sc)
                        c['ops'][i][key] = val
                        yield c

    def features(self, sc, v):
        i = v.get('op_index')
        f = []
        if i is not None and i < len(sc['ops']):
            op = sc['ops'][i]
            f.append('op=' + op['op'])
            if op['op'] == 'prot':
                f += ['method=' + op['method'], 'spell=' + op['spell']]
        return f

    def rule(self):
        return ('histories of 3-14 DataDir calls on an Array or RaggedArray (with/without metadata, handle mode r/r+): half are '
                'attempts on a protected name (Array: 4 files; ragged: values, indices and paths below them) through '
                '{write_txt, write_jsonfile, write_jsondict, update_jsondict, delete_files, open_file in 9 writing modes} under '
                '10 spellings (str, Path, ./x, ./../dir/x, .//x, x/, sub/../x, ../dir/x, absolute str/Path); the rest are '
                'user-file writes, updates, deletes and reads checked against a model; non-trivial = at least one protected '
                'attempt and one user-file operation were judged; distinct = distinct scenario digests')

    def nontrivial(self, scenario, stats):
        p = stats.get('probes') or {}
        return p.get('protected_refused', 0) >= 1 and stats.get('steps', 0) >= 2

    def run(self, sc, sandbox, emit):
        darr = import_darr()
        st = _DState(darr, sandbox, emit)
        viol = None
        for idx, op in enumerate(sc['ops']):
            st.idx = idx
            try:
                st.step(op)
            except Viol as v:
                viol = {'oracle': v.oracle, 'signature': v.signature, 'op_index': idx, 'op': op['op'], 'detail': v.detail}
                emit({'step': idx, 'violation': v.oracle + ':' + v.signature})
                break
        return {'violation': viol, 'stats': {'steps': st.steps, 'probes': st.probes, 'faults': {},
                                             'transitions': sorted(st.transitions)}}


class _DState:
    def __init__(self, darr, sb, emit):
        self.darr, self.sb, self.emit = darr, sb, emit
        self.parent = os.path.join(sb, 'p')
        self.dirname = 't.darr'
        self.path = os.path.join(self.parent, self.dirname)
        self.files = {}      # user files: name -> ('txt', str) | ('json', value)
        self.idx = 0
        self.steps = 0
        self.probes = {}
        self.transitions = set()
        self.dd = None

    def probe(self, n):
        self.probes[n] = self.probes.get(n, 0) + 1

    def spell(self, name, how):
        if how == 'str':
            return name
        if how == 'Path':
            return pathlib.Path(name)
        if how == 'dot':
            return './' + name
        if how == 'dotdot':
            return f'./../{self.dirname}/{name}'
        if how == 'dslash':
            return './/' + name.replace('/', '//')
        if how == 'trail':
            return name + '/' if name in ('values', 'indices') else './' + name
        if how == 'sub':
            return f'sub/../{name}' if self.has_sub else './' + name
        if how == 'updir':
            return f'../{self.dirname}/{name}'
        if how == 'abs':
            return os.path.join(self.path, name)
        if how == 'absPath':
            return pathlib.Path(self.path) / name
        raise HarnessError(how)

    def step(self, op):
        k = op['op']
        if k == 'create':
            os.makedirs(self.parent)
            md = {'fs': 2} if op['meta'] else None
            cpath = self.path
            if op.get('relative'):
                # the array is created and held through a relative path (cwd = its parent directory)
                os.chdir(self.parent)
                cpath = self.dirname
                self.probe('array_opened_by_relative_path')
            if op['ragged']:
                h = self.darr.asraggedarray(cpath, [np.arange(3.), np.arange(2.)], metadata=md, accessmode=op['mode'])
            else:
                h = self.darr.asarray(cpath, np.arange(6, dtype='<i4'), metadata=md, accessmode=op['mode'])
            self.h = h
            self.dd = h.datadir
            self.ragged = op['ragged']
            self.has_sub = op['sub']
            if op['sub']:
                os.makedirs(os.path.join(self.path, 'sub'))
            return
        if self.dd is None:
            return
        getattr(self, 'do_' + k)(op)
        self.steps += 1
        self.emit({'step': self.idx, 'op': k, 'dir': snap_digest(snapshot(self.path))})

    # ---- protected names
    def do_prot(self, op):
        dd = self.dd
        name = op['name']
        fn = self.spell(name, op['spell'])
        m = op['method']
        pre = snapshot(self.parent)
        exc = None
        try:
            if m == 'write_txt':
                dd.write_txt(fn, 'overwritten by user\n', overwrite=op['overwrite'])
            elif m == 'write_jsonfile':
                dd.write_jsonfile(fn, [1, 2, 3], overwrite=op['overwrite'])
            elif m == 'write_jsondict':
                dd.write_jsondict(fn, {'x': 1}, overwrite=op['overwrite'])
            elif m == 'update_jsondict':
                dd.update_jsondict(fn, {'shape': [1], 'x': 1})
            elif m == 'delete_files':
                other = 'notes.txt'
                arg = [fn] if op['aslist'] == 'list' else (fn,) if op['aslist'] == 'tuple' else [other, fn]
                dd.delete_files(arg)
            elif m == 'open_file':
                with dd.open_file(fn, op['mode']) as f:
                    if 'b' in op['mode']:
                        f.write(b'\x00garbage')
                    else:
                        f.write('garbage')
        except Exception as e:   # noqa
            exc = e
        post = snapshot(self.parent)
        tag = f'{m}:{op["spell"]}:{"sub" if "/" in name else "top"}:{name.split("/")[-1]}'
        d = snap_diff(pre, post)
        if d:
            raise Viol('datadir.protected_modified', tag, f'{fn!r} mode={op["mode"]}: {d}')
        if not isinstance(exc, OSError):
            raise Viol('datadir.protected_not_refused', f'{tag}:{type(exc).__name__ if exc else "no_exception"}',
                       f'{fn!r} mode={op["mode"]} {str(exc)[:150]}')
        self.probe('protected_refused')
        self.probe('spell:' + op['spell'])
        self.transitions.add(f'prot|{m}|{op["spell"]}|{"r" if self.ragged else "a"}|{"sub" if "/" in name else "top"}')
        # the array is intact
        try:
            (self.darr.RaggedArray if self.ragged else self.darr.Array)(self.path)
        except Exception as e:
            raise Viol('datadir.array_broken', tag, str(e)[:200])

    # ---- user files
    def ufn(self, op):
        return self.spell(op['name'], op.get('spell', 'str'))

    def upath(self, name):
        return os.path.join(self.path, name)

    def do_write_txt(self, op):
        name = op['name']
        existed = os.path.exists(self.upath(name))
        pre = snapshot(self.path)
        exc = None
        try:
            self.dd.write_txt(self.ufn(op), op['text'], overwrite=op['overwrite'])
        except Exception as e:   # noqa
            exc = e
        if existed and not op['overwrite']:
            if exc is None:      # refusing is what is owed; the class of the exception is not named
                raise Viol('datadir.overwrite', 'write_txt:replaced_without_overwrite', name)
            if snap_diff(pre, snapshot(self.path)):
                raise Viol('datadir.overwrite', 'write_txt:refused_but_changed', name)
            self.probe('overwrite_refused')
            return
        if exc is not None:
            raise Viol('datadir.user', f'write_txt:raises:{type(exc).__name__}', str(exc)[:200])
        self.files[name] = ('txt', op['text'])
        got = self.dd.read_txt(self.ufn(op))
        if got != op['text']:
            raise Viol('datadir.roundtrip', 'txt', f'{got!r} != {op["text"]!r}')
        self.probe('txt_roundtrip')
        self.only_changed(pre, [name])

    def do_write_jsondict(self, op):
        name = op['name']
        d = M.build_dict(op['d'])
        existed = os.path.exists(self.upath(name))
        pre = snapshot(self.path)
        exc = None
        try:
            self.dd.write_jsondict(self.ufn(op), d, overwrite=op['overwrite'])
        except Exception as e:   # noqa
            exc = e
        if existed and not op['overwrite']:
            if exc is None:      # refusing is what is owed; the class of the exception is not named
                raise Viol('datadir.overwrite', 'write_jsondict:replaced_without_overwrite', name)
            if snap_diff(pre, snapshot(self.path)):
                raise Viol('datadir.overwrite', 'write_jsondict:refused_but_changed', name)
            self.probe('overwrite_refused')
            return
        if exc is not None:
            raise Viol('datadir.user', f'write_jsondict:raises:{type(exc).__name__}', str(exc)[:200])
        exp = json_normalise(d)
        self.files[name] = ('jsondict', exp)       # written by write_jsondict: read_jsondict owes the round trip
        got = self.dd.read_jsondict(self.ufn(op))
        if not json_equal(got, exp):
            raise Viol('datadir.roundtrip', 'jsondict', f'{got!r} != {exp!r}'[:300])
        self.probe('json_roundtrip')
        self.only_changed(pre, [name])

    def follow(self, name):
        """the model of a user file follows what the file holds now (after a call whose effect on user files the
        statement does not describe)"""
        import json
        self.files.pop(name, None)
        p = self.upath(name)
        if os.path.isfile(p) and not os.path.islink(p):
            with open(p, 'rb') as f:
                raw = f.read()
            try:
                self.files[name] = ('json', json.loads(raw.decode('utf-8')))
            except ValueError:
                self.files[name] = ('raw', None)

    def unjudged_user_call(self, op, what, call):
        """write_jsonfile, update_jsondict, open_file on a *user* name: C20 names them only in its protection clause, so
        the call is made, the array's own files must stay byte-identical, and the model follows the user file"""
        name = op['name']
        pre = snapshot(self.path)
        exc = None
        try:
            call()
        except Exception as e:   # noqa
            exc = e
        self.follow(name)
        self.probe(f'{what}_on_user_file:' + (type(exc).__name__ if exc else 'accepted'))
        self.only_changed(pre, [name])

    def do_write_jsonfile(self, op):
        v = M.build_value(op['v'])
        self.unjudged_user_call(op, 'write_jsonfile', lambda: self.dd.write_jsonfile(self.ufn(op), v, overwrite=op['overwrite']))

    def do_update_jsondict(self, op):
        d = M.build_dict(op['d'])
        self.unjudged_user_call(op, 'update_jsondict', lambda: self.dd.update_jsondict(self.ufn(op), d))

    def do_delete_files(self, op):
        names = op['names']
        pre = snapshot(self.path)
        arg = [self.spell(n, op.get('spell', 'str')) for n in names]
        exc = None
        try:
            self.dd.delete_files(arg)
        except Exception as e:   # noqa
            exc = e
        post = snapshot(self.path)
        removed = sorted(k for k in pre if k not in post)
        existing = sorted({n for n in names if n in pre})
        untouched = all(pre[k] == post[k] for k in post if k in pre) and all(k in pre for k in post)
        if exc is not None:
            # what is owed for a name that does not exist is not stated: a refusal is accepted as long as nothing but
            # named files went away; with only existing names the call has to succeed
            if all(n in pre for n in names):
                raise Viol('datadir.user', f'delete_files:raises:{type(exc).__name__}', str(exc)[:200])
            if not set(removed) <= set(existing) or not untouched:
                raise Viol('datadir.delete_files', 'refused_but_removed_other_files', f'removed {removed}, named {names}')
            self.probe('delete_files_with_missing_name_refused')
        elif removed != existing or not untouched:
            raise Viol('datadir.delete_files', 'not_exactly_the_named_files', f'removed {removed}, named {names}')
        for n in removed:
            self.files.pop(n, None)
        self.probe('delete_files_exact')

    def do_open_append(self, op):
        def call():
            with self.dd.open_file(self.ufn(op), 'a', encoding='utf-8') as f:
                f.write(op['text'])
        self.unjudged_user_call(op, 'open_file_a', call)

    def do_open_x(self, op):
        def call():
            with self.dd.open_file(self.ufn(op), 'x', encoding='utf-8') as f:
                f.write(op['text'])
        self.unjudged_user_call(op, 'open_file_x', call)

    def do_read(self, op):
        name = op['name']
        cur = self.files.get(name)
        if cur is None:
            return
        if cur[0] == 'txt':
            got = self.dd.read_txt(self.ufn(op))
            if got != cur[1]:
                raise Viol('datadir.roundtrip', 'txt_later', f'{got!r} != {cur[1]!r}')
        elif cur[0] == 'jsondict':
            got = self.dd.read_jsondict(self.ufn(op))
            if not json_equal(got, cur[1]):
                raise Viol('datadir.roundtrip', 'json_later', '')

    def only_changed(self, pre, names):
        post = snapshot(self.path)
        for k in set(pre) | set(post):
            if k in names:
                continue
            if pre.get(k) != post.get(k):
                if self.files.get(k, ('',))[0] in ('txt', 'jsondict'):
                    # a user file whose content write_txt / write_jsondict established was changed or removed by a
                    # call that does not name it: its round trip is broken (and nothing had overwrite=True for it)
                    raise Viol('datadir.roundtrip', 'file_changed_by_a_call_on_another_name', k)
                if k in USERNAMES or k in self.files or k not in pre:
                    # another user file of unjudged content, or a new entry: the model follows the file
                    self.follow(k)
                    self.probe('user_call_touched_another_user_file')
                    continue
                raise Viol('datadir.user', 'touched_a_file_of_the_array', k)
