"""Creation engine (C01): asarray / create_array / create_temparray from every
input form, compared bit for bit with the NumPy reference, re-created under
further chunk lengths, re-read through a fresh handle (restart).  Degenerate
as a simulation: the statement quantifies over inputs and configurations
only."""
import copy
import os
import tempfile
import numpy as np

from ..core import Engine, import_darr, HarnessError
from .. import data as D
from ..oracles import snapshot, snap_diff, decode_array_dir, DecodeError
from .arrayhist import Viol

FILLFUNCS = ['ident', 'twice', 'mod3', 'neg', 'lastaxis', 'const', 'sq']
REJECT = ['bool', 'str', 'object', 'datetime64', 'timedelta64', 'structured', 'bytes', 'boollist', 'strlist',
          'longdouble', 'clongdouble', 'overwrite_longdouble']


def fillfunc(name, trail):
    if name == 'ident':
        return lambda i: i
    if name == 'twice':
        return lambda i: i * 2
    if name == 'mod3':
        return lambda i: i % 3
    if name == 'neg':
        return lambda i: 100 - i
    if name == 'const':
        return lambda i: 7
    if name == 'sq':
        return lambda i: (i % 11) ** 2
    if name == 'lastaxis':
        if trail:
            w = np.arange(1, trail[-1] + 1)
            return lambda i: (i % 7) * w
        return lambda i: i + 1
    raise HarnessError(name)


class Creation(Engine):
    prop = 'C01'
    quick_runs = 6000
    thorough_runs = 150000
    batch = 50

    def gen(self, rng, i, tier):
        r = rng.random()
        dtype = D.pick_dtype(rng)
        ndim = rng.choice([1, 1, 2, 2, 3, 4])
        trail = [rng.choice([1, 1, 2, 3, 4]) for _ in range(ndim - 1)]
        rows = rng.choice([0, 1, 1, 2, 3, 5, 7, 12, 25])
        dtarg = rng.choice([None, None, None, D.pick_dtype(rng), rng.choice(D.NUMTYPES)])
        n = max(rows, 1)
        chunklens = [rng.choice([1, 2, max(1, n - 1), n, n + 1, 1000, None if r > 0.2 else 3])]
        more = [c for c in [1, 2, 3, max(1, n - 1), n, n + 1, 5000] if c not in chunklens]
        rng.shuffle(more)
        chunklens += more[:2]
        valgen = 'nonneg' if dtarg is not None else rng.choice(['rand', 'rand', 'special', 'safe'])
        base = {'engine': 'Creation', 'prop': 'C01', 'ops': [], 'dtarg': dtarg, 'chunklens': chunklens,
                'mode': rng.choice(['r', 'r+']), 'pathform': rng.choice(['str', 'Path'])}
        if r < 0.42:
            base.update(kind='ndarray', data={'gen': valgen, 'rows': rows, 'trail': trail, 'dtype': dtype,
                                              'layout': rng.choice(D.LAYOUTS), 'form': 'ndarray', 'vseed': rng.getrandbits(32),
                                              'bcastrows': rng.random() < 0.15})
        elif r < 0.54:
            form = rng.choice(['list', 'tuple'])
            rows = max(rows, 1) if trail else rows
            base.update(kind='sequence', data={'gen': 'nonneg' if dtarg is not None else rng.choice(['safe', 'special', 'nonneg']),
                                               'rows': rows, 'trail': trail,
                                               'dtype': rng.choice(['<i8', '<f8', '<c16', '<i4', '<f4', '<u2']),
                                               'layout': 'C', 'form': form, 'vseed': rng.getrandbits(32)})
        elif r < 0.60:
            base.update(kind='scalar', data={'form': rng.choice(['scalar', 'npscalar']), 'dtype': dtype,
                                             'gen': 'nonneg' if dtarg is not None else 'safe', 'vseed': rng.getrandbits(32)})
        elif r < 0.74:
            nch = rng.choice([1, 2, 3, 4])
            chunks = []
            for j in range(nch):
                same = rng.random() < 0.7
                chunks.append({'gen': valgen if same else 'nonneg', 'rows': rng.choice([0, 1, 2, 3, 5]), 'trail': trail,
                               'dtype': dtype if same else D.pick_dtype(rng), 'layout': rng.choice(D.LAYOUTS),
                               'form': 'ndarray', 'vseed': rng.getrandbits(32)})
            if any(c['dtype'] != dtype for c in chunks):
                for c in chunks:
                    c['gen'] = 'nonneg'
            base.update(kind='chunkiter', chunks=chunks, iterkind=rng.choice(['generator', 'iter_of_list']))
            if not trail and rng.random() < 0.2:
                # an iterator of numbers: each one is a chunk of one element
                base['chunks'] = [{'form': 'npscalar', 'dtype': dtype, 'gen': 'nonneg' if dtarg is not None else 'safe',
                                   'vseed': rng.getrandbits(32)} for _ in range(rng.choice([1, 2, 4]))]
        elif r < 0.84:
            base.update(kind='darr', data={'gen': valgen, 'rows': rows, 'trail': trail, 'dtype': dtype, 'layout': 'C',
                                           'form': 'ndarray', 'vseed': rng.getrandbits(32)},
                        srcchunklen=rng.choice([None, 1, 3]))
        elif r < 0.95:
            usefunc = rng.random() < 0.55
            base.update(kind='create_array', shape=[rows] + trail, dtype=rng.choice([dtype, rng.choice(D.NUMTYPES)]),
                        fill=None if usefunc else rng.choice([None, 0, 1, 7, 100]),
                        fillx=rng.choice([None, -3, 2.5, 1e10, 'nan', 'inf', '-0.0']),
                        fillfunc=rng.choice(FILLFUNCS) if usefunc else None,
                        temp=rng.random() < 0.08, shapeint=(not trail) and rng.random() < 0.3)
        else:
            base.update(kind='reject', what=rng.choice(REJECT), via=rng.choice(['asarray', 'asarray', 'create_array', 'iterator']))
        return base

    def simplify(self, sc):
        if 'data' in sc and 'rows' in sc['data']:
            d = sc['data']
            for key, val in (('layout', 'C'), ('gen', 'arange')):
                if d.get(key) != val:
                    c = copy.deepcopy(sc)
                    c['data'][key] = val
                    yield c
            if d['trail']:
                c = copy.deepcopy(sc)
                c['data']['trail'] = d['trail'][:-1]
                yield c
            if d['rows'] > 1:
                c = copy.deepcopy(sc)
                c['data']['rows'] = d['rows'] // 2
                yield c
            if d['dtype'] not in ('<f8', '<i4'):
                c = copy.deepcopy(sc)
                c['data']['dtype'] = '<f8'
                yield c
        if sc.get('dtarg') is not None:
            yield dict(copy.deepcopy(sc), dtarg=None)
        if len(sc.get('chunklens', [])) > 1:
            for j in range(len(sc['chunklens'])):
                c = copy.deepcopy(sc)
                del c['chunklens'][j]
                yield c
        if sc.get('kind') == 'chunkiter':
            ch = sc['chunks']
            for j in range(len(ch)):
                if len(ch) > 1:
                    c = copy.deepcopy(sc)
                    del c['chunks'][j]
                    yield c

    def features(self, sc, v):
        return ['kind=' + sc['kind']]

    def rule(self):
        return ('one creation per run, drawn over input form {ndarray, list/tuple, scalar, iterator of chunks, Darr Array, '
                'create_array fill/fillfunc, create_temparray, rejected element types} x 26 dtype cells x 6 layouts x rank 1-4 '
                '(first axis 0/1/n, length-1 axes) x dtype argument x 3 chunk lengths; non-trivial = a creation completed and '
                'was compared with the reference on returned and fresh handle (or a rejection left the disk untouched); '
                'distinct = distinct scenario digests')

    def nontrivial(self, scenario, stats):
        return stats.get('steps', 0) >= 1

    # ------------------------------------------------------------------
    def run(self, sc, sandbox, emit):
        darr = import_darr()
        st = {'steps': 0, 'probes': {}, 'faults': {}, 'transitions': set(), 'extra': {}}
        viol = None
        try:
            self._run(darr, sc, sandbox, emit, st)
        except Viol as v:
            viol = {'oracle': v.oracle, 'signature': v.signature, 'op_index': None, 'op': sc['kind'], 'detail': v.detail}
            emit({'violation': v.oracle + ':' + v.signature})
        st['transitions'] = sorted(st['transitions'])
        return {'violation': viol, 'stats': st}

    def _path(self, sc, p):
        import pathlib
        return pathlib.Path(p) if sc.get('pathform') == 'Path' else p

    def _run(self, darr, sc, sb, emit, st):
        kind = sc['kind']
        parent = os.path.join(sb, 'w')
        os.makedirs(parent)
        dtarg = None if sc.get('dtarg') is None else np.dtype(sc['dtarg'])
        if kind == 'reject':
            return self._reject(darr, sc, parent, emit, st)
        results = []
        for ci, chunklen in enumerate(sc['chunklens']):
            path = os.path.join(parent, f'a{ci}.darr')
            try:
                with np.errstate(all='ignore'):
                    src, ref = self._input(darr, sc, parent, ci)
                    if kind == 'create_array':
                        ref = self._ref_create(sc)
                    elif dtarg is not None:
                        # cast the *input object* as the statement says (np.asarray(x) cast to dtype)
                        ref = np.asarray(ref, dtype=dtarg)
                        if kind in ('sequence', 'scalar'):
                            obj = D.build(sc['data'])[0]
                            np.asarray(obj, dtype=dtarg)      # must be convertible directly, too
            except Exception:
                # NumPy itself rejects this input/dtype combination: not a supported input
                st['probes']['reference_rejects_input'] = 1
                emit({'kind': kind, 'skipped': 'reference_rejects_input'})
                return
            try:
                with np.errstate(all='ignore'):
                    if kind == 'create_array':
                        h = self._create_array(darr, sc, path, chunklen, ref, st)
                        if h is None:
                            continue
                    else:
                        h = darr.asarray(self._path(sc, path), src, dtype=dtarg, accessmode=sc['mode'], chunklen=chunklen)
            except Exception as e:
                if kind == 'chunkiter' and all(c.get('form') == 'npscalar' for c in sc.get('chunks', [{}])):
                    # an iterator of bare numbers: a number is not a chunk with an axis 0, so a refusal is not a
                    # violation of the statement (the pinned tree accepts it: each number a chunk of one element)
                    st['probes']['iterator_of_numbers_refused'] = 1
                    continue
                raise Viol('create.raises', f'{kind}:{type(e).__name__}', f'chunklen={chunklen} {str(e)[:300]}')
            for who, hh in (('returned', h), ('fresh', None)):
                if hh is None:
                    try:
                        hh = darr.Array(path)
                    except Exception as e:
                        raise Viol('create.fresh_open', f'{kind}:{type(e).__name__}', str(e)[:300])
                got = hh[:]
                if D.dtstr(hh.dtype) != D.dtstr(ref.dtype):
                    raise Viol(f'create.{who}', f'{kind}:dtype', f'{D.dtstr(hh.dtype)} != {D.dtstr(ref.dtype)} chunklen={chunklen}')
                if tuple(hh.shape) != tuple(ref.shape):
                    raise Viol(f'create.{who}', f'{kind}:shape', f'{tuple(hh.shape)} != {tuple(ref.shape)} chunklen={chunklen}')
                ok, why = D.arr_equal(got, ref)
                if not ok:
                    raise Viol(f'create.{who}', f'{kind}:{why.split(" ")[0]}', f'chunklen={chunklen} {why}')
            if h.accessmode != (sc['mode'] if kind != 'create_array' else 'r+'):
                st['probes']['returned_in_another_accessmode'] = 1        # not part of the statement
            with open(os.path.join(path, 'arrayvalues.bin'), 'rb') as f:
                results.append((chunklen, f.read()))
            st['steps'] += 1
            emit({'kind': kind, 'chunklen': chunklen, 'ref': D.arr_digest(ref)})
        for c, b in results[1:]:
            if b != results[0][1]:
                raise Viol('create.chunklen', f'{kind}:result_depends_on_chunklen', f'{results[0][0]} vs {c}')
        st['transitions'].add(f'{kind}|{len(results)}')
        st['probes']['kind:' + kind] = 1
        if results and len(results[0][1]) == 0:
            st['probes']['empty_first_axis'] = 1

    def _input(self, darr, sc, parent, ci):
        kind = sc['kind']
        if kind in ('ndarray', 'sequence'):
            obj, a = D.build(sc['data'])
            if kind == 'sequence':
                return obj, np.asarray(obj)
            return obj, np.asarray(obj)
        if kind == 'scalar':
            obj, a = D.build(sc['data'])
            return obj, np.asarray(obj).reshape(1)
        if kind == 'chunkiter':
            arrs = [D.build(c)[0] for c in sc['chunks']]
            dtarg = None if sc.get('dtarg') is None else np.dtype(sc['dtarg'])
            first = np.atleast_1d(np.asarray(arrs[0], dtype=dtarg))
            ref = np.concatenate([np.atleast_1d(np.asarray(a, dtype=dtarg)).astype(first.dtype) for a in arrs]).astype(first.dtype, copy=False)
            it = (a for a in arrs) if sc['iterkind'] == 'generator' else iter(list(arrs))
            return it, ref
        if kind == 'darr':
            obj, a = D.build(sc['data'])
            sp = os.path.join(parent, f'src{ci}.darr')
            src = darr.asarray(sp, obj, chunklen=sc.get('srcchunklen'))
            return src, np.asarray(a)
        if kind == 'create_array':
            return None, None
        raise HarnessError(kind)

    def _ref_create(self, sc):
        shape = tuple(sc['shape'])
        dtype = np.dtype(sc['dtype'])
        if sc.get('fillfunc'):
            grid = np.empty(shape, dtype='int64')
            grid.T[:] = np.arange(shape[0], dtype='int64')
            ref = np.empty(shape, dtype=dtype)
            ref[:] = fillfunc(sc['fillfunc'], list(shape[1:]))(grid)
            return ref
        fill = 0 if self._fill(sc) is None else self._fill(sc)
        return np.full(shape, fill, dtype=dtype)

    def _fill(self, sc):
        """fill value; the extended values only where the dtype can hold them"""
        if sc.get('fillfunc'):
            return None
        x = sc.get('fillx')
        k = np.dtype(sc['dtype']).kind
        if x is None or sc.get('fill') is None:
            return sc.get('fill')
        if x == -3:
            return -3 if k != 'u' else sc.get('fill')
        if k in 'fc':
            return float(x) if isinstance(x, str) else x
        return sc.get('fill')

    def _create_array(self, darr, sc, path, chunklen, ref, st):
        shape = tuple(sc['shape'])
        shp = shape[0] if sc.get('shapeint') else shape
        ff = fillfunc(sc['fillfunc'], list(shape[1:])) if sc.get('fillfunc') else None
        if sc.get('temp'):
            tempfile.tempdir = os.path.dirname(path)
            with darr.create_temparray(shape=shp, dtype=np.dtype(sc['dtype']), fill=self._fill(sc), fillfunc=ff,
                                       chunklen=chunklen, report=False) as t:
                tp = str(t.path)
                ok, why = D.arr_equal(t[:], ref)
                if not ok or D.dtstr(t.dtype) != D.dtstr(ref.dtype):
                    raise Viol('create.returned', f'create_temparray:{why.split(" ")[0] or "dtype"}', why)
            if os.path.exists(tp):
                st['probes']['temparray_not_removed'] = 1                 # not part of the statement
            st['probes']['create_temparray'] = 1
            st['steps'] += 1
            return None
        return darr.create_array(self._path(sc, path), shape=shp, dtype=np.dtype(sc['dtype']), fill=self._fill(sc),
                                 fillfunc=ff, chunklen=chunklen)

    def _reject(self, darr, sc, parent, emit, st):
        what = sc['what']
        obj = {
            'bool': np.array([True, False]), 'str': np.array(['a', 'b']), 'object': np.array([object(), None], dtype=object),
            'datetime64': np.array(['2020-01-01', '2021-01-01'], dtype='datetime64[D]'),
            'timedelta64': np.array([1, 2], dtype='timedelta64[s]'),
            'structured': np.zeros(2, dtype=[('a', '<i4'), ('b', '<f8')]), 'bytes': np.array([b'a', b'bc']),
            'boollist': [True, False, True], 'strlist': ['x', 'y'],
            'longdouble': np.array([1.5, 2.5], dtype=np.longdouble), 'clongdouble': np.array([1 + 2j], dtype=np.clongdouble),
            'overwrite_longdouble': np.array([1.5, 2.5], dtype=np.longdouble),
        }[what]
        if what in ('longdouble', 'clongdouble', 'overwrite_longdouble') and obj.dtype.name in D.NUMTYPES:
            st['probes']['longdouble_is_a_supported_type_here'] = 1
            return
        path = os.path.join(parent, 'rej.darr')
        okw = {}
        if what == 'overwrite_longdouble':
            # a valid array already lives at the path: a rejected overwrite must leave it untouched
            darr.asarray(path, np.arange(4.), metadata={'keep': 1})
            okw = {'overwrite': True}
        pre = snapshot(parent)
        via = sc['via']
        try:
            if via == 'create_array' and hasattr(obj, 'dtype'):
                darr.create_array(path, shape=(3,), dtype=obj.dtype, **okw)
            elif via == 'iterator':
                darr.asarray(path, (o for o in [obj, obj]), **okw)
            else:
                darr.asarray(path, obj, **okw)
        except TypeError:
            pass
        except Exception as e:
            raise Viol('create.reject', f'{what}:{via}:wrong_class:{type(e).__name__}', str(e)[:200])
        else:
            raise Viol('create.reject', f'{what}:{via}:accepted', '')
        d = snap_diff(pre, snapshot(parent))
        if d:
            raise Viol('create.reject', f'{what}:{via}:disk_touched', d)
        st['steps'] += 1
        st['probes']['reject:' + what] = 1
        st['transitions'].add(f'reject|{what}|{via}')
        emit({'kind': 'reject', 'what': what, 'via': via})
