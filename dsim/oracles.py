"""Oracles that share no code with Darr: independent decoder of the on-disk
format, directory snapshots, descriptor/mapping leak detection, README
currency."""
import hashlib
import json
import os
import stat
import numpy as np

# ---- D-decoder -------------------------------------------------------------
# own literal table: numtype -> (kind letter, itemsize)
_TYPES = {'int8': ('i', 1), 'int16': ('i', 2), 'int32': ('i', 4), 'int64': ('i', 8),
          'uint8': ('u', 1), 'uint16': ('u', 2), 'uint32': ('u', 4), 'uint64': ('u', 8),
          'float16': ('f', 2), 'float32': ('f', 4), 'float64': ('f', 8),
          'complex64': ('c', 8), 'complex128': ('c', 16)}
_BO = {'little': '<', 'big': '>'}
ARRAY_KEYS = ('numtype', 'byteorder', 'shape', 'arrayorder', 'darrversion', 'darrobject')


class DecodeError(Exception):
    pass


def decode_array_dir(path, require_readme=True):
    """Reconstruct an array from the documented format only.  Returns
    (ndarray, descriptor dict).  Raises DecodeError with a short reason."""
    jp = os.path.join(path, 'arraydescription.json')
    bp = os.path.join(path, 'arrayvalues.bin')
    for p in (jp, bp) + ((os.path.join(path, 'README.txt'),) if require_readme else ()):
        if not os.path.isfile(p):
            raise DecodeError(f'missing:{os.path.basename(p)}')
    try:
        with open(jp, 'r', encoding='utf-8') as f:
            d = json.load(f)
    except ValueError:
        raise DecodeError('descr_not_json')
    if not isinstance(d, dict):
        raise DecodeError('descr_not_dict')
    for k in ARRAY_KEYS:
        if k not in d:
            raise DecodeError(f'descr_key_missing:{k}')
    if d['numtype'] not in _TYPES:
        raise DecodeError('descr_numtype')
    if d['byteorder'] not in _BO:
        raise DecodeError('descr_byteorder')
    if d['arrayorder'] not in ('C', 'F'):
        raise DecodeError('descr_arrayorder')
    shape = d['shape']
    if not isinstance(shape, list) or not shape or \
            not all(isinstance(x, int) and not isinstance(x, bool) and x >= 0 for x in shape):
        raise DecodeError('descr_shape')
    kind, size = _TYPES[d['numtype']]
    n = 1
    for x in shape:
        n *= x
    st = os.stat(bp).st_size
    if st != n * size:
        raise DecodeError(f'size_equation:{st}!={n}*{size}')
    with open(bp, 'rb') as f:
        raw = f.read()
    dtype = np.dtype(f'{_BO[d["byteorder"]]}{kind}{size}')
    a = np.frombuffer(raw, dtype=dtype).reshape(shape, order=d['arrayorder'])   # layout as the descriptor says
    return a, d


def decode_ragged_dir(path):
    """Returns (list of subarrays, values, indices, top-level descriptor)."""
    v, dv = decode_array_dir(os.path.join(path, 'values'))
    i, di = decode_array_dir(os.path.join(path, 'indices'))
    if i.ndim != 2 or i.shape[1] != 2:
        raise DecodeError(f'indices_shape:{i.shape}')
    if i.dtype.kind not in 'iu':
        raise DecodeError('indices_not_integer')
    N = v.shape[0]
    ii = i.astype(object)   # exact python ints, no overflow
    prev = 0
    for k in range(i.shape[0]):
        s, e = int(ii[k, 0]), int(ii[k, 1])
        if k == 0 and s != 0:
            raise DecodeError('indices_first_start_not_0')
        if s != prev:
            raise DecodeError(f'indices_not_contiguous_at:{k}')
        if s > e:
            raise DecodeError(f'indices_start_gt_end_at:{k}')
        prev = e
    if prev != N:
        raise DecodeError(f'indices_last_end:{prev}!=values_len:{N}')
    subs = [v[int(ii[k, 0]):int(ii[k, 1])] for k in range(i.shape[0])]
    jp = os.path.join(path, 'arraydescription.json')
    if not os.path.isfile(jp):
        raise DecodeError('top_descr_missing')
    try:
        with open(jp, 'r', encoding='utf-8') as f:
            top = json.load(f)
    except ValueError:
        raise DecodeError('top_descr_not_json')
    if not isinstance(top, dict):
        raise DecodeError('top_descr_not_dict')
    for k in ('len', 'size', 'atom', 'numtype', 'darrobject'):
        if k not in top:
            raise DecodeError(f'top_key_missing:{k}')
    if top['darrobject'] != 'RaggedArray':
        raise DecodeError('top_darrobject')
    if top['len'] != i.shape[0]:
        raise DecodeError(f'top_len:{top["len"]}!={i.shape[0]}')
    if top['size'] != int(v.size):
        raise DecodeError(f'top_size:{top["size"]}!={int(v.size)}')
    if list(top['atom']) != list(v.shape[1:]):
        raise DecodeError(f'top_atom:{top["atom"]}!={list(v.shape[1:])}')
    if top['numtype'] != dv['numtype']:
        raise DecodeError('top_numtype')
    return subs, v, i, top        # the top-level README.txt is C08's subject, not part of the format C05 describes


# ---- O-snapshot ------------------------------------------------------------

def snapshot(path):
    """{relative path: (type, mode bits, bytes|link target)} of a tree
    (symlinks not followed).  A missing root gives {'.': ('missing',)}."""
    out = {}
    if not os.path.lexists(path):
        return {'.': ('missing',)}
    st = os.lstat(path)
    if stat.S_ISLNK(st.st_mode):
        return {'.': ('link', os.readlink(path))}
    if stat.S_ISREG(st.st_mode):
        with open(path, 'rb') as f:
            return {'.': ('file', stat.S_IMODE(st.st_mode), f.read())}
    out['.'] = ('dir', stat.S_IMODE(st.st_mode))
    for root, dirs, files in os.walk(path):
        dirs.sort()
        for name in sorted(dirs + files):
            p = os.path.join(root, name)
            rel = os.path.relpath(p, path)
            s = os.lstat(p)
            if stat.S_ISLNK(s.st_mode):
                out[rel] = ('link', os.readlink(p))
            elif stat.S_ISDIR(s.st_mode):
                out[rel] = ('dir', stat.S_IMODE(s.st_mode))
            elif stat.S_ISREG(s.st_mode):
                with open(p, 'rb') as f:
                    out[rel] = ('file', stat.S_IMODE(s.st_mode), f.read())
            else:
                out[rel] = ('other',)
        # do not descend into symlinked dirs (os.walk does not by default)
    return out


def snap_digest(snap):
    h = hashlib.sha256()
    for k in sorted(snap):
        h.update(k.encode())
        for part in snap[k]:
            h.update(part if isinstance(part, bytes) else str(part).encode())
            h.update(b'|')
    return h.hexdigest()[:12]


def snap_diff(a, b):
    """Short description of the first difference, or None."""
    for k in sorted(set(a) | set(b)):
        if k not in a:
            return f'added:{k}'
        if k not in b:
            return f'removed:{k}'
        if a[k] != b[k]:
            return f'changed:{k}'
    return None


# ---- O-leak ----------------------------------------------------------------

def leaks(under):
    """Open descriptors and memory maps of this process that refer to files
    under `under`."""
    under = os.path.realpath(under)
    found = []
    try:
        for fd in sorted(os.listdir('/proc/self/fd'), key=lambda s: int(s)):
            try:
                t = os.readlink(f'/proc/self/fd/{fd}')
            except OSError:
                continue
            if t.startswith(under):
                found.append(('fd', os.path.relpath(t.split(' (deleted)')[0], under)))
    except OSError:
        pass
    try:
        with open('/proc/self/maps') as f:
            for line in f:
                parts = line.rstrip('\n').split(None, 5)
                if len(parts) == 6 and parts[5].startswith(under):
                    found.append(('map', os.path.relpath(parts[5].split(' (deleted)')[0], under)))
    except OSError:
        pass
    return found


# ---- JSON normaliser (M-meta) ---------------------------------------------

def json_normalise(v):
    """What a JSON round-trip of v (with NumPy objects turned into native
    numbers/lists, bytes into str) yields.  Independent of darr.utils."""
    if isinstance(v, (bool, type(None), str)):
        return v
    if isinstance(v, np.bool_):
        raise TypeError('np.bool_ not JSON-serialisable by the documented encoder')
    if isinstance(v, (int, np.integer)):
        return int(v)
    if isinstance(v, (float, np.floating)):
        return float(v)
    if isinstance(v, np.ndarray):
        return json_normalise(v.tolist())
    if isinstance(v, (bytes, bytearray)):
        return v.decode('utf-8')
    if isinstance(v, (list, tuple)):
        return [json_normalise(x) for x in v]
    if isinstance(v, dict):
        out = {}
        for k, x in v.items():
            if not isinstance(k, str):
                raise TypeError('key')
            out[k] = json_normalise(x)
        return out
    raise TypeError(type(v).__name__)


def json_equal(a, b):
    """Equality of JSON values, NaN == NaN, int vs float distinguished only by value."""
    if isinstance(a, float) and isinstance(b, float):
        return (a != a and b != b) or a == b
    if isinstance(a, bool) or isinstance(b, bool) or a is None or b is None:
        return type(a) is type(b) and a == b
    if isinstance(a, (int, float)) and isinstance(b, (int, float)):
        return a == b or (a != a and b != b)
    if isinstance(a, list) and isinstance(b, list):
        return len(a) == len(b) and all(json_equal(x, y) for x, y in zip(a, b))
    if isinstance(a, dict) and isinstance(b, dict):
        return set(a) == set(b) and all(json_equal(a[k], b[k]) for k in a)
    return type(a) is type(b) and a == b
