"""Stub interpreters for the non-Python read-code snippets that Darr generates.

No R / Matlab / Scilab / Julia / IDL / Mathematica / Maple interpreter is
available, so this module contains a small tokenizer, a Pratt expression
parser and one evaluator per language family, written from the languages'
documented semantics (see DESIGN.md, Appendix B).  Policy: strict where the
semantics are certain, accept-and-note (``unverified``) where they are not.

Three outcomes are kept apart:

* ``IllFormed``        the snippet is not valid code in its language, or calls
                       a builtin with arguments of the wrong kind/position;
* ``LangRuntimeError`` the code is valid but the language would raise an error
                       while running it (index out of range, size mismatch);
* ``StubLimitation``   the stub cannot judge (construct not modelled).

Arrays are numpy arrays in the *language's own* axis order: ``value.shape`` is
what the language reports as dimensions and ``value[i1-1, i2-1, ...]`` is the
language's ``a(i1, i2, ...)``.  Use :func:`conform` to compare against an
expected shape modulo the language's implicit singleton-dimension rules.
"""
from __future__ import annotations

import os
import re
from dataclasses import dataclass, field

import numpy as np

ARRAY_LANGS = ('R', 'matlab', 'scilab', 'julia_ver0', 'julia_ver1', 'idl',
               'mathematica', 'maple')
RAGGED_LANGS = ('R', 'matlab', 'scilab', 'julia', 'idl', 'mathematica', 'maple')
COLUMN_MAJOR = ('R', 'matlab', 'scilab', 'julia', 'julia_ver0', 'julia_ver1',
                'idl', 'maple')


class IllFormed(Exception):
    """Snippet is not valid code of its language / misuses a builtin."""


class LangRuntimeError(Exception):
    """Valid code, but the language raises an error when running it."""


class StubLimitation(Exception):
    """The stub does not model this construct; no verdict possible."""


@dataclass
class ArrayResult:
    language: str
    value: np.ndarray
    unverified: list
    files_left_open: list = field(default_factory=list)


class RaggedResult:
    def __init__(self, language, getter, unverified):
        self.language = language
        self._getter = getter
        self.unverified = unverified
        self.files_left_open = []
        self.example_comment_k = None     # N of "(k=N)" in the example comment
        self.example_position = None      # 'first' | 'second' | 'third'
        self.example_call_k = None        # literal index used by the example code
        self.example_var = 'sa'
        self.example_bound = False
        self.example_value = None
        self.example_error = None

    def get(self, k):
        """Subarray number `k` (language-native index origin)."""
        return self._getter(k)


def conform(language, value, shape):
    """Return `value` reshaped to `shape` when, by the language's own rules,
    both denote the same array (Matlab/Scilab/IDL: implicit trailing singleton
    dimensions, vectors for rank 1; R: `drop=TRUE` of subscripting removes
    extents of 1).  Otherwise `value` is returned unchanged."""
    value = np.asarray(value)
    shape = tuple(int(s) for s in shape)
    if value.shape == shape:
        return value

    def strip(s):
        s = list(s)
        while s and s[-1] == 1:
            s.pop()
        return s
    if language in ('matlab', 'scilab', 'idl'):
        if strip(value.shape) == strip(shape):
            return value.reshape(shape)
        if language != 'idl' and len(shape) == 1 and value.ndim == 2 \
                and 1 in value.shape and value.size == shape[0]:
            return value.reshape(shape)
        if language != 'idl' and len(shape) == 1 and shape[0] == 0 and value.size == 0:
            return value.reshape(shape)
    elif language == 'R':
        if [s for s in value.shape if s != 1] == [s for s in shape if s != 1]:
            return value.reshape(shape)
    elif value.ndim == 0 and int(np.prod(shape)) == 1:
        return value.reshape(shape)
    return value


# ---------------------------------------------------------------------------
# Lexer
# ---------------------------------------------------------------------------

@dataclass
class Lex:
    line_comments: tuple = ()
    block_comments: tuple = ()          # (open, close, nested)
    dq: str = None                      # escape style of "..." : 'double'|'backslash'
    sq: str = None                      # escape style of '...'
    ops: tuple = ()
    id_re: str = r'[A-Za-z_][A-Za-z0-9_]*'
    num_suffix: str = ''
    fold_case: bool = False
    sq_transpose: bool = False          # Matlab/Scilab: quote after operand = transpose
    continuation: str = None
    newlines: bool = True               # emit 'nl' tokens


class Tok:
    __slots__ = ('kind', 'text', 'val', 'line', 'sp', 'after_comment', 'quote')

    def __init__(self, kind, text, val, line, sp, after_comment=False, quote=None):
        self.kind, self.text, self.val, self.line = kind, text, val, line
        self.sp, self.after_comment, self.quote = sp, after_comment, quote

    def __repr__(self):
        return f'{self.kind}:{self.text!r}@{self.line}'


_COMMON_OPS = ('(', ')', '[', ']', '{', '}', ',', ';', '+', '-', '*', '/', '^',
               '<', '>', '=', ':', '!', '&', '|', '~', '@', '.', '?', '$', '\\', '%')

LEX = {
    'R': Lex(line_comments=('#',), dq='backslash', sq='backslash',
             ops=('<<-', '<-', '->', '==', '!=', '<=', '>=', '&&', '||', '%%') + _COMMON_OPS,
             id_re=r'(?:[A-Za-z]|\.(?![0-9]))[A-Za-z0-9._]*', num_suffix='L?'),
    'matlab': Lex(line_comments=('%',), dq='double', sq='double', sq_transpose=True,
                  ops=('==', '~=', '<=', '>=', '&&', '||', '.*', './', '.^', ".'", '.\\')
                  + _COMMON_OPS + ("'",), continuation='...'),
    'scilab': Lex(line_comments=('//',), block_comments=(('/*', '*/', False),),
                  dq='double', sq='double', sq_transpose=True,
                  ops=('==', '~=', '<>', '<=', '>=', '&&', '||', '.*', './', '.^', ".'")
                  + _COMMON_OPS + ("'",), id_re=r'[A-Za-z_%#!$?][A-Za-z0-9_#!$?]*',
                  continuation='..'),
    'julia': Lex(line_comments=('#',), block_comments=(('#=', '=#', True),), dq='backslash',
                 ops=('...', '->', '==', '!=', '<=', '>=', '&&', '||', '::', '.+', '.-', '.*', './')
                 + _COMMON_OPS + ("'",), id_re=r'[A-Za-z_][A-Za-z0-9_]*!?(?!=)|[A-Za-z_][A-Za-z0-9_]*'),
    'idl': Lex(line_comments=(';',), dq='double', sq='double', fold_case=True,
               ops=('->', '##', '&&', '||', '++', '--') + _COMMON_OPS + ('#',),
               id_re=r'[A-Za-z_!][A-Za-z0-9_$]*', num_suffix='(?:ULL|LL|UL|US|[BSLUD])?',
               continuation='$'),
    'mathematica': Lex(block_comments=(('(*', '*)', True),), dq='backslash',
                       ops=(':=', '->', ';;', '==', '!=', '<=', '>=', '&&', '||', '/@', '@@', '//',
                            '/.', '<>') + _COMMON_OPS + ('_', '#', "'"),
                       id_re=r'[A-Za-z$][A-Za-z0-9$]*'),
    'maple': Lex(line_comments=('#',), dq='backslash', ops=(':=', '::', ':-', '..', '<>', '<=', '>=',
                 '->') + _COMMON_OPS + ("'", '`'), newlines=False),
}

_NUM_RE = r'(?:\d+(?:\.(?!\.)\d*)?|\.\d+)(?:[eE][+-]?\d+)?'


def tokenize(src, lang):
    """-> (tokens, comments) ; comments is a list of (line, text)."""
    lx = LEX[lang]
    num_re = re.compile(_NUM_RE + lx.num_suffix, re.I if lx.fold_case else 0)
    id_re = re.compile(lx.id_re)
    toks, comments = [], []
    pos, line, n = 0, 1, len(src)
    sp, after_comment = True, False

    def err(reason, detail):
        raise IllFormed(f'{lang}:{reason}: line {line}: {detail}')

    def add(kind, text, val=None, quote=None):
        nonlocal sp, after_comment
        toks.append(Tok(kind, text, val, line, sp, after_comment, quote))
        sp = after_comment = False

    while pos < n:
        c = src[pos]
        if c == '\n':
            if lx.newlines:
                add('nl', '\n')
            line += 1
            pos += 1
            sp, after_comment = True, False
            continue
        if c in ' \t\r\f':
            pos += 1
            sp = True
            continue
        if lx.continuation and src.startswith(lx.continuation, pos) and \
                not (lang == 'scilab' and not re.match(r'\.\.+[ \t]*(//.*)?\n', src[pos:])) and \
                not (lang == 'idl' and toks and toks[-1].kind == 'id' and not sp):
            eol = src.find('\n', pos)
            eol = n if eol < 0 else eol
            pos, line, sp = min(eol + 1, n), line + 1, True
            continue
        blk = next((b for b in lx.block_comments if src.startswith(b[0], pos)), None)
        if blk:
            op_, cl_, nested = blk
            depth, j = 1, pos + len(op_)
            while depth:
                if j >= n:
                    err('unterminated_comment', src[pos:pos + 30])
                if src.startswith(cl_, j):
                    depth, j = depth - 1, j + len(cl_)
                elif nested and src.startswith(op_, j):
                    depth, j = depth + 1, j + len(op_)
                else:
                    j += 1
            comments.append((line, src[pos + len(op_):j - len(cl_)]))
            line += src.count('\n', pos, j)
            pos, sp, after_comment = j, True, True
            continue
        lc = next((s for s in lx.line_comments if src.startswith(s, pos)), None)
        if lc:
            eol = src.find('\n', pos)
            eol = n if eol < 0 else eol
            comments.append((line, src[pos + len(lc):eol]))
            pos = eol
            continue
        prev = toks[-1] if toks else None
        is_quote = (c == '"' and lx.dq) or (c == "'" and lx.sq)
        if is_quote and c == "'" and lx.sq_transpose and prev is not None and not sp and \
                (prev.kind in ('num', 'id') or prev.text in (')', ']', '}', "'", ".'")):
            is_quote = False
        if is_quote and lang == 'idl' and c == '"' and src[pos + 1:pos + 2].isdigit():
            err('dquote_digit_is_octal_constant', f'{src[pos:pos + 20]!r}: in IDL a double quote followed '
                                                  f'by a digit starts an octal constant, not a string')
        if is_quote:
            style = lx.dq if c == '"' else lx.sq
            j, out = pos + 1, []
            while True:
                if j >= n or src[j] == '\n':
                    err('unterminated_string', src[pos:pos + 30])
                ch = src[j]
                if ch == c:
                    if style == 'double' and src.startswith(c, j + 1):
                        out.append(c)
                        j += 2
                        continue
                    break
                if ch == '\\' and style == 'backslash':
                    nxt = src[j + 1:j + 2]
                    out.append({'n': '\n', 't': '\t', '\\': '\\', '"': '"', "'": "'"}.get(nxt, '\\' + nxt))
                    j += 2
                    continue
                out.append(ch)
                j += 1
            add('str', src[pos:j + 1], ''.join(out), quote=c)
            pos = j + 1
            continue
        m = num_re.match(src, pos)
        if m and (c.isdigit() or c == '.'):
            text = m.group(0)
            core = re.match(_NUM_RE, text).group(0)
            isint = re.fullmatch(r'\d+', core) is not None
            add('num', text, int(core) if isint else float(core))
            pos = m.end()
            continue
        m = id_re.match(src, pos)
        if m:
            text = m.group(0)
            add('id', text.lower() if lx.fold_case else text, text)
            pos = m.end()
            continue
        op = next((o for o in lx.ops if src.startswith(o, pos)), None)
        if op is None:
            err('bad_character', repr(c))
        add('op', op)
        pos += len(op)
    if lx.newlines:
        add('nl', '\n')
    add('eof', '')
    return toks, comments


# ---------------------------------------------------------------------------
# Parser (one Pratt parser, parameterised by language family)
# ---------------------------------------------------------------------------
# AST nodes are tuples:
#   ('num', v) ('str', s, quote) ('id', name) ('bin', op, l, r) ('un', op, e)
#   ('app', f, args, bracket)   args = [(keyword|None, node)], bracket in ( [ [[ {
#   ('list', rows) ('tuple', elems) ('block', stmts) ('if', c, then, else)
#   ('func', name, params, body_stmts, kind) ('assign', lhs, rhs, op)
#   ('field', obj, name) ('splat', e) ('pattern', name, head) ('return', e)
#   ('null',) ('all',) ('empty',)

ALL = ('all',)
EMPTY = ('empty',)
NULLNODE = ('null',)


@dataclass
class Stmt:
    node: tuple
    line: int
    term: str


def _tbl(*levels):
    out = {}
    for bp, (assoc, ops) in enumerate(levels, 1):
        for o in ops.split():
            out[o] = (bp * 10, assoc)
    return out


_CMP = '== != <= >= < >'
BIN = {
    'R': _tbl(('r', '='), ('r', '<- <<-'), ('l', '|| |'), ('l', '&& &'), ('l', _CMP),
              ('l', '+ -'), ('l', '* /'), ('l', '%%'), ('l', ':'), ('l', '~unary~'), ('r', '^')),
    'matlab': _tbl(('l', '||'), ('l', '&&'), ('l', '|'), ('l', '&'), ('l', _CMP + ' ~='),
                   ('l', ':'), ('l', '+ -'), ('l', '* / .* ./ \\'), ('l', '~unary~'), ('l', '^ .^')),
    'julia': _tbl(('r', '='), ('r', '->'), ('l', '||'), ('l', '&&'), ('l', _CMP), ('l', ':'),
                  ('l', '+ - .+ .-'), ('l', '* / .* ./ %'), ('l', '::'), ('l', '~unary~'), ('r', '^')),
    'idl': _tbl(('l', 'or xor ||'), ('l', 'and &&'), ('l', 'eq ne le lt ge gt'), ('l', '+ -'),
                ('l', '* / mod #'), ('l', '~unary~'), ('r', '^')),
    'mathematica': _tbl(('l', ';'), ('r', '= :='), ('r', '->'), ('l', '||'), ('l', '&&'),
                        ('l', _CMP), ('l', ';;'), ('l', '+ -'), ('l', '* /'), ('l', '~unary~'),
                        ('r', '^'), ('l', '?')),
    'maple': _tbl(('l', '= <> < > <= >='), ('l', '..'), ('l', '+ -'), ('l', '* /'),
                  ('l', '~unary~'), ('r', '^'), ('l', '::')),
}
BIN['scilab'] = dict(BIN['matlab'], **{'<>': BIN['matlab']['==']})
PREFIX_OPS = {'R': '+-!', 'matlab': '+-~', 'scilab': '+-~', 'julia': '+-!', 'idl': '+-',
              'mathematica': '+-!', 'maple': '+-'}
ALL_MARK = {'matlab': ':', 'scilab': ':', 'julia': ':', 'idl': '*', 'maple': '..'}
NL_IN_BRACKETS = ('R', 'julia', 'mathematica')      # newlines inside ( ) [ ] are ignored
CALL_PAREN = ('R', 'matlab', 'scilab', 'julia', 'idl', 'maple')
INDEX_BRACKET = ('R', 'julia', 'idl', 'maple')
LIST_BRACKET = ('matlab', 'scilab', 'julia', 'idl', 'maple')
NAMED_ARGS = ('R', 'idl', 'maple')
STMT_SEPS = {'R': (';',), 'matlab': (';', ','), 'scilab': (';', ','), 'julia': (';',),
             'idl': (), 'mathematica': (), 'maple': (';', ':')}
_UNSUPPORTED_KW = {
    'R': ('for', 'while', 'repeat'),
    'matlab': ('function', 'if', 'for', 'while', 'switch', 'try'),
    'scilab': ('function', 'if', 'for', 'while', 'select', 'try'),
    'julia': ('if', 'for', 'while', 'let', 'begin', 'struct', 'module', 'try', 'using', 'import'),
    'idl': ('for', 'while', 'repeat', 'case', 'switch', 'pro', 'function', 'begin', 'foreach'),
    'mathematica': (), 'maple': ('if', 'for', 'while', 'do', 'use', 'module', 'try'),
}


class Parser:
    def __init__(self, src, lang, julia_strict_space=True):
        self.lang = lang
        self.toks, self.comments = tokenize(src, lang)
        self.toks += [self.toks[-1]] * 3          # look-ahead never runs off the end
        self.i = 0
        self.skipnl = [False]
        self.in_matrix = 0
        self.brace_depth = 0
        self.notes = []
        self.julia_strict_space = julia_strict_space
        self.bin = BIN[lang]
        self.unary_bp = self.bin['~unary~'][0]

    # -- token helpers -----------------------------------------------------
    # Tokens that begin (or belong to) constructs which are valid in the language but outside the subset grammar of
    # this stub.  Meeting one where the subset grammar cannot continue is a limitation of the stub (a probe), not a
    # verdict about the program: only what the stub *knows* to be wrong is IllFormed.
    _VALID_OUTSIDE_SUBSET = {
        'R': {'$', '|>', '%>%', '@', '::', ':::', 'function', 'if', 'else', '->', '<<-', '~', '?'},
        'matlab': {'@', '...', '~', "'", '.', '?', 'end', 'function', 'if', 'else', 'elseif'},
        'scilab': {'@', '...', '..', '~', "'", '.', '$', 'then', 'else', 'function', 'if'},
        'julia': {'do', '.', '.=', '@', ',', 'const', 'local', 'global', 'for', 'in', 'if', 'else', '|>', '->', '::', '?', ':',
                  '...', '$', '<:', 'where', 'end', '=', '.+', '.-', '.*', './'},
        'idl': {'?', ':', '->', '$', '&', '&&', '||', '#', '##', 'begin', 'end', 'endif', 'else', 'then', 'of', '.'},
        'mathematica': {'//', '&', '#', '/@', '@', '@@', '/.', '->', ':>', '//.', '~', '_', '?', '/;', '<>', '|', ';;', '=.', '@@@',
                        '##', '\\[', '`'},
        'maple': {'return', '->', 'proc', 'end', 'local', 'global', 'option', 'description', '::', '..', '$', '||', '@', "'", '`',
                  'if', 'then', 'else', 'elif', 'fi', 'do', 'od', 'use'},
    }
    _COMMAND_SYNTAX = ('clear', 'clearvars', 'close', 'format', 'hold', 'clc', 'more', 'warning', 'disp', 'pkg', 'stacksize')

    def bad(self, reason, tok=None, detail=''):
        tok = tok or self.toks[self.i]
        if reason in ('stray_tokens', 'unexpected_token', 'bad_argument_list', 'missing_statement_terminator'):
            valid = self._VALID_OUTSIDE_SUBSET.get(self.lang, set())
            prev = self.toks[self.i - 1] if self.i > 0 else None
            near = [tok.text] + ([prev.text] if prev is not None else [])
            if any(x in valid for x in near):
                self.lim('construct_outside_subset_grammar', tok)
            if self.lang in ('matlab', 'scilab') and tok.kind in ('id', 'str', 'num') and prev is not None \
                    and prev.kind == 'id' and prev.text in self._COMMAND_SYNTAX:
                self.lim('command_syntax', tok)       # "clear fileid", "format long", ...
        what = 'end of line' if tok.kind == 'nl' else 'end of input' if tok.kind == 'eof' else repr(tok.text)
        raise IllFormed(f'{self.lang}:{reason}: line {tok.line}: at {what} {detail}'.rstrip())

    def lim(self, reason, tok=None):
        tok = tok or self.toks[self.i]
        raise StubLimitation(f'{self.lang}:{reason}: line {tok.line}: at {tok.text!r}')

    def peek(self):
        if self.skipnl[-1]:
            while self.toks[self.i].kind == 'nl':
                self.i += 1
        return self.toks[self.i]

    def peek2(self):
        self.peek()
        j = self.i + 1
        if self.skipnl[-1]:
            while self.toks[j].kind == 'nl':
                j += 1
        return self.toks[min(j, len(self.toks) - 1)]

    def next(self):
        t = self.peek()
        if t.kind != 'eof':
            self.i += 1
        return t

    def at(self, *texts):
        t = self.peek()
        return t.kind == 'op' and t.text in texts

    def at_id(self, *names):
        t = self.peek()
        return t.kind == 'id' and t.text in names

    def expect(self, text, reason='expected'):
        t = self.next()
        if t.kind not in ('op', 'id') or t.text != text:
            self.bad(reason, t, f'(expected {text!r})')
        return t

    def skip_newlines(self):
        while self.toks[self.i].kind == 'nl':
            self.i += 1

    # -- programs and statements --------------------------------------------
    def parse_program(self):
        stmts = []
        while True:
            while self.toks[self.i].kind == 'nl' or (
                    self.toks[self.i].kind == 'op' and self.toks[self.i].text in STMT_SEPS[self.lang]
                    and self.lang != 'maple'):
                self.i += 1
            t = self.peek()
            if t.kind == 'eof':
                return stmts
            if self.lang == 'maple' and t.kind == 'op' and t.text in (';', ':'):
                self.note_empty_statement(t)
                self.i += 1
                continue
            node = self.statement()
            stmts.append(Stmt(node, t.line, self.terminator()))

    def note_empty_statement(self, t):
        self.notes.append(f'maple: a bare {t.text!r} (empty statement) is assumed to be accepted')

    def terminator(self, closers=()):
        t = self.toks[self.i]
        if t.kind in ('nl', 'eof'):
            if self.lang == 'maple' and t.kind == 'eof':
                self.notes.append('maple: last statement without ; or : terminator accepted')
            return ''
        if t.kind == 'op' and t.text in STMT_SEPS[self.lang]:
            self.i += 1
            return t.text
        if (t.kind in ('op', 'id')) and t.text in closers:
            return ''
        reason = 'stray_tokens'
        if self.lang == 'maple' and t.kind != 'op':
            reason = 'missing_statement_terminator'
        self.bad(reason, t)

    def statement(self):
        lang, t = self.lang, self.peek()
        if t.kind == 'id' and t.text in _UNSUPPORTED_KW[lang] and self.peek2().text not in ('=', '<-', ':='):
            self.lim('unsupported_statement', t)
        if t.kind == 'op' and t.text not in PREFIX_OPS[lang] + '([{@' and t.kind != 'str':
            reason = 'stray_token_after_comment' if t.after_comment else 'unexpected_token'
            self.bad(reason, t)
        if lang == 'idl':
            return self.idl_statement()
        if lang == 'julia' and t.kind == 'id' and t.text == 'return':
            self.next()
            nxt = self.toks[self.i]
            return ('return', NULLNODE if nxt.kind in ('nl', 'eof') or nxt.text in (';', 'end')
                    else self.parse_expr(0))
        if lang in ('matlab', 'scilab') and t.kind == 'op' and t.text == '[':
            save = self.i
            lhs = self.parse_expr(0)
            if self.at('='):
                self.lim('multiple_assignment', t)
            self.i = save
        node = self.parse_expr(0)
        if lang in ('matlab', 'scilab') and self.at('='):
            self.next()
            if node[0] not in ('id', 'app', 'field'):
                self.bad('bad_assignment_target', t)
            return ('assign', node, self.parse_expr(0), '=')
        if lang == 'maple' and self.at(':='):
            self.next()
            if node[0] not in ('id', 'app'):
                self.bad('bad_assignment_target', t)
            return ('assign', node, self.parse_expr(0), ':=')
        return node

    def idl_statement(self):
        t = self.peek()
        if t.kind == 'id' and t.text == 'if':
            self.next()
            cond = self.parse_expr(0)
            if not self.at_id('then'):
                self.bad('if_without_then')
            self.next()
            then = self.idl_statement()
            other = None
            if self.at_id('else'):
                self.next()
                other = self.idl_statement()
            return ('if', cond, then, other)
        if t.kind == 'id' and self.peek2().kind == 'op' and self.peek2().text == ',':
            self.lim('procedure_call', t)
        node = self.parse_expr(0)
        if self.at('='):
            self.next()
            if node[0] not in ('id', 'app'):
                self.bad('bad_assignment_target', t)
            return ('assign', node, self.parse_expr(0), '=')
        if node[0] == 'id':
            self.lim('procedure_call', t)
        self.bad('expression_is_not_a_statement', t)

    def block_until(self, closers, seps):
        """Statements up to (not including) one of the closer tokens."""
        stmts = []
        self.skipnl.append(False)
        while True:
            while self.toks[self.i].kind == 'nl' or (self.toks[self.i].kind == 'op'
                                                     and self.toks[self.i].text in seps):
                if self.lang == 'maple' and self.toks[self.i].kind == 'op':
                    self.note_empty_statement(self.toks[self.i])
                self.i += 1
            t = self.toks[self.i]
            if t.kind == 'eof':
                self.bad('unterminated_block', t)
            if t.kind in ('op', 'id') and t.text in closers:
                break
            node = self.statement()
            stmts.append(Stmt(node, t.line, self.terminator(closers)))
        self.skipnl.pop()
        return stmts

    # -- expressions ----------------------------------------------------------
    def parse_expr(self, rbp):
        left = self.prefix()
        while True:
            t = self.peek()
            if t.kind in ('nl', 'eof'):
                break
            if self.in_matrix and t.sp and t.kind == 'op' and (
                    (t.text in '+-' and not self.toks[self.i + 1].sp) or t.text == '('):
                break
            new = self.postfix(left, t)
            if new is not None:
                left = new
                continue
            if t.kind == 'op' or (self.lang == 'idl' and t.kind == 'id'):
                ent = self.bin.get(t.text)
                if ent is None or ent[0] <= rbp:
                    break
                self.next()
                if self.lang == 'mathematica' and t.text == ';':
                    nxt = self.toks[self.i]
                    if nxt.kind in ('nl', 'eof') and self.skipnl[-1] is False or \
                            self.peek().kind == 'eof' or self.at(']', ')', '}', ','):
                        left = ('bin', ';', left, NULLNODE)
                        continue
                if self.lang in NL_IN_BRACKETS:
                    self.skip_newlines()
                right = self.parse_expr(ent[0] - (1 if ent[1] == 'r' else 0))
                if t.text in ('=', '<-', '<<-', ':=') and self.lang in ('R', 'julia', 'mathematica'):
                    left = ('assign', left, right, t.text)
                else:
                    left = ('bin', t.text, left, right)
                continue
            break
        return left

    def prefix(self):
        lang = self.lang
        t = self.next()
        if t.kind == 'num':
            return ('num', t.val)
        if t.kind == 'str':
            return ('str', t.val, t.quote)
        if t.kind == 'id':
            return self.prefix_id(t)
        if t.kind == 'op':
            if t.text in PREFIX_OPS[lang]:
                return ('un', t.text, self.parse_expr(self.unary_bp))
            if lang == 'idl' and t.text == 'not':
                return ('un', 'not', self.parse_expr(self.unary_bp))
            if t.text == '(':
                return self.paren()
            if t.text == '[' and lang in LIST_BRACKET:
                return self.list_literal()
            if t.text == '{' and lang == 'mathematica':
                return ('list', [[n for _, n in self.parse_args('}')]])
            if t.text == '{' and lang == 'R':
                self.brace_depth += 1
                stmts = self.block_until(('}',), (';',))
                self.brace_depth -= 1
                self.expect('}')
                return ('block', stmts)
            if t.text == '@' and lang == 'matlab':
                if self.at('('):
                    self.next()
                    params = [self.param(n) for _, n in self.parse_args(')')]
                    return ('func', None, params, [Stmt(self.parse_expr(0), t.line, '')], 'anon')
                return self.prefix()
        self.bad('stray_token_after_comment' if t.after_comment else 'unexpected_token', t)

    def param(self, node):
        p = param_of(node)
        if p is None:
            self.bad('bad_parameter')
        return p

    def prefix_id(self, t):
        lang, name = self.lang, t.text
        if lang == 'R' and name == 'function':
            self.expect('(')
            params = []
            for kw, n in self.parse_args(')'):
                params.append((kw, n) if kw else self.param(n))
            self.skip_newlines()
            return ('func', None, params, [Stmt(self.parse_expr(0), t.line, '')], 'R')
        if lang == 'R' and name == 'if':
            self.expect('(')
            self.skipnl.append(True)
            cond = self.parse_expr(0)
            self.skipnl.pop()
            self.expect(')')
            self.skip_newlines()
            then = self.parse_expr(0)
            j = self.i
            if self.brace_depth:
                while self.toks[j].kind == 'nl':
                    j += 1
            other = None
            if self.toks[j].kind == 'id' and self.toks[j].text == 'else':
                self.i = j + 1
                self.skip_newlines()
                other = self.parse_expr(0)
            return ('if', cond, then, other)
        if lang == 'julia' and name == 'function':
            fname = self.next()
            if fname.kind != 'id':
                self.bad('bad_function_header', fname)
            self.expect('(')
            params = [self.param(n) for _, n in self.parse_args(')')]
            body = self.block_until(('end',), (';',))
            self.expect('end')
            return ('func', fname.text, params, body, 'julia')
        if lang == 'maple' and name == 'proc':
            self.expect('(')
            params = [self.param(n) for _, n in self.parse_args(')')]
            if self.at('::'):
                self.next()
                self.parse_expr(0)
                self.expect(';')
            elif self.at(';', ':'):
                self.notes.append(f'maple: `proc(...)` directly followed by {self.peek().text!r} '
                                  f'(empty statement after the header) is assumed to be accepted')
                self.next()
            while self.at_id('local', 'global', 'option', 'options', 'description'):
                self.lim('proc_declarations')
            body = self.block_until(('end',), (';', ':'))
            self.expect('end')
            if self.at_id('proc'):
                self.next()
            return ('func', None, params, body, 'maple')
        return ('id', name)

    def paren(self):
        self.skipnl.append(self.lang in NL_IN_BRACKETS or self.lang == 'maple')
        saved, self.in_matrix = self.in_matrix, 0
        elems, trailing = [], False
        if self.lang == 'julia' and self.at(')'):
            self.next()
            self.skipnl.pop()
            self.in_matrix = saved
            return ('tuple', [])
        while True:
            elems.append(self.parse_expr(0))
            t = self.next()
            if t.kind == 'op' and t.text == ')':
                break
            if t.kind == 'op' and t.text == ',' and self.lang == 'julia':
                if self.at(')'):
                    self.next()
                    trailing = True
                    break
                continue
            self.bad('unbalanced_parenthesis', t)
        self.skipnl.pop()
        self.in_matrix = saved
        if len(elems) > 1 or trailing:
            return ('tuple', elems)
        return elems[0]

    def list_literal(self):
        if self.lang not in ('matlab', 'scilab'):
            return ('list', [[n for _, n in self.parse_args(']')]])
        rows = [[]]
        self.skipnl.append(False)
        self.in_matrix += 1
        while True:
            t = self.toks[self.i]
            if t.kind == 'eof':
                self.bad('unbalanced_bracket', t)
            if t.kind == 'op' and t.text == ']':
                self.i += 1
                break
            if t.kind == 'nl' or (t.kind == 'op' and t.text == ';'):
                self.i += 1
                if rows[-1]:
                    rows.append([])
                continue
            if t.kind == 'op' and t.text == ',':
                self.i += 1
                continue
            rows[-1].append(self.parse_expr(0))
        self.in_matrix -= 1
        self.skipnl.pop()
        if not rows[-1] and len(rows) > 1:
            rows.pop()
        return ('list', rows)

    def postfix(self, left, t):
        lang = self.lang
        if t.kind != 'op':
            return None
        if t.text == '(' and lang in CALL_PAREN:
            if lang == 'julia' and t.sp:
                if self.julia_strict_space:
                    self.bad('space_before_call_parenthesis', t)
                self.notes.append('julia:space_before_call_parenthesis accepted for Julia < 1')
            if lang in ('matlab', 'scilab', 'maple', 'idl') and left[0] not in ('id', 'app', 'field'):
                return None
            self.next()
            return ('app', left, self.parse_args(')'), '(')
        if t.text == '[':
            if lang == 'mathematica':
                self.next()
                nxt = self.toks[self.i]
                if nxt.kind == 'op' and nxt.text == '[' and not nxt.sp:
                    self.next()
                    args = self.parse_args(']')
                    c2 = self.toks[self.i]
                    if not (c2.kind == 'op' and c2.text == ']'):
                        self.bad('unbalanced_part_brackets', c2)
                    self.i += 1
                    return ('app', left, args, '[[')
                return ('app', left, self.parse_args(']'), '[')
            if lang in INDEX_BRACKET and not (lang == 'julia' and t.sp):
                self.next()
                if lang == 'R' and self.at('['):
                    self.lim('double_bracket_index', t)
                return ('app', left, self.parse_args(']'), '[')
            return None
        if t.text == '{' and lang == 'julia' and not t.sp:
            self.next()
            return ('app', left, self.parse_args('}'), '{')
        if t.text in ("'", ".'") and lang in ('matlab', 'scilab', 'julia'):
            self.next()
            return ('un', "'", left)
        if t.text == '.' and lang in ('matlab', 'julia') and self.toks[self.i + 1].kind == 'id':
            self.next()
            return ('field', left, self.next().text)
        if t.text == '.' and lang == 'julia' and self.toks[self.i + 1].text in ('(', '['):
            self.lim('broadcast_syntax', t)
        if t.text == ':-' and lang == 'maple' and self.toks[self.i + 1].kind == 'id':
            self.next()                      # A:-B is the module-member form of A[B]
            return ('app', left, [(None, ('id', self.next().text))], '[')
        if t.text == '...' and lang == 'julia':
            self.next()
            return ('splat', left)
        if t.text == '_' and lang == 'mathematica' and left[0] == 'id' and not t.sp:
            self.next()
            head = None
            nxt = self.toks[self.i]
            if nxt.kind == 'id' and not nxt.sp:
                head = self.next().text
            return ('pattern', left[1], head)
        return None

    # -- argument lists -----------------------------------------------------
    def parse_args(self, close):
        self.skipnl.append(self.lang in NL_IN_BRACKETS or self.lang == 'maple')
        saved, self.in_matrix = self.in_matrix, 0
        args = []
        if self.at(close):
            self.next()
        else:
            while True:
                args.append(self.parse_arg(close))
                t = self.next()
                if t.kind == 'op' and t.text == close:
                    break
                if not (t.kind == 'op' and t.text == ','):
                    self.bad('bad_argument_list', t, f'(expected , or {close})')
                if self.lang == 'julia' and self.at(close):
                    self.next()
                    break
        self.skipnl.pop()
        self.in_matrix = saved
        return args

    def parse_arg(self, close):
        lang, t, t2 = self.lang, self.peek(), self.peek2()
        ends = (',', close)
        if t.kind == 'op' and t.text in ends:
            if lang == 'R':
                return (None, EMPTY)
            self.bad('empty_argument', t)
        if t.kind == 'op' and t.text == ALL_MARK.get(lang) and t2.kind == 'op' and t2.text in ends:
            self.next()
            return (None, ALL)
        if lang in NAMED_ARGS and t.kind == 'id' and t2.kind == 'op' and t2.text == '=':
            self.next()
            self.next()
            return (t.text, self.parse_expr(self.bin.get('=', (0,))[0] if lang == 'maple' else 0))
        if lang == 'idl' and t.kind == 'op' and t.text == '/' and t2.kind == 'id':
            self.next()
            self.next()
            return (t2.text, ('num', 1))
        node = self.parse_expr(self.bin['='][0] if lang == 'R' else 0)
        if lang == 'idl' and self.at(':'):
            self.next()
            if self.at('*') and self.peek2().kind == 'op' and self.peek2().text in ends:
                self.next()
                node = ('bin', ':', node, ALL)
            else:
                node = ('bin', ':', node, self.parse_expr(0))
            if self.at(':'):
                self.lim('strided_subscript')
        return (None, node)


def param_of(node):
    """(name, annotation) of a formal parameter node, or None."""
    if node[0] == 'id':
        return (node[1], None)
    if node[0] == 'bin' and node[1] == '::' and node[2][0] == 'id':
        return (node[2][1], node[3])
    if node[0] == 'pattern':
        return (node[1], node)
    if node[0] == 'bin' and node[1] == '?' and node[2][0] == 'pattern':
        return (node[2][1], node)
    return None


def find_nodes(node, pred, out=None):
    """All sub-nodes (pre-order) for which pred(node) holds."""
    out = [] if out is None else out
    if isinstance(node, Stmt):
        node = node.node
    if isinstance(node, tuple):
        if node and isinstance(node[0], str) and pred(node):
            out.append(node)
        for x in node:
            find_nodes(x, pred, out)
    elif isinstance(node, list):
        for x in node:
            find_nodes(x, pred, out)
    return out


# ---------------------------------------------------------------------------
# Evaluator base
# ---------------------------------------------------------------------------

class _AllType:
    def __repr__(self):
        return 'ALL'


ALLV = _AllType()          # value of a bare  :  *  ..  or empty R subscript


@dataclass
class Rng:
    a: object
    b: object


@dataclass
class Func:
    params: list
    body: list
    env: dict
    kind: str
    name: str = None
    outs: tuple = ()


class FileH:
    def __init__(self, path, literal, data, order='<', mode='rb'):
        self.path, self.literal, self.data, self.order, self.mode = path, literal, data, order, mode
        self.pos = 0


class _Return(Exception):
    def __init__(self, value):
        self.value = value


def native(code):
    return np.dtype(code).newbyteorder('=')


def is_scalar(v):
    return isinstance(v, (bool, int, float, complex, np.generic))


class Interp:
    lang = '?'          # reason-token prefix
    family = '?'        # lexer/parser family
    origin = 1

    def __init__(self, cwd):
        self.cwd = os.fspath(cwd)
        self.env = {}
        self.files = {}
        self.unverified = []
        self.paths = []

    # -- diagnostics --------------------------------------------------------
    def note(self, msg):
        if msg not in self.unverified:
            self.unverified.append(msg)

    def bad(self, reason, detail=''):
        raise IllFormed(f'{self.lang}:{reason}: {detail}'.rstrip(': '))

    def rt(self, reason, detail=''):
        raise LangRuntimeError(f'{self.lang}:{reason}: {detail}'.rstrip(': '))

    def lim(self, reason, detail=''):
        raise StubLimitation(f'{self.lang}:{reason}: {detail}'.rstrip(': '))

    # -- files --------------------------------------------------------------
    def load(self, literal, order='<', mode='rb'):
        if not isinstance(literal, str):
            self.bad('file_name_not_a_string', repr(literal))
        path = literal if os.path.isabs(literal) else os.path.join(self.cwd, literal)
        self.paths.append(literal)
        if not os.path.isfile(path):
            self.bad('file_not_found', literal)
        with open(path, 'rb') as fh:
            return FileH(path, literal, fh.read(), order, mode)

    def read(self, fh, code, count, order, skip=0):
        """Read up to `count` elements (None = all) of numpy type `code`."""
        if count is not None and count < 0:
            self.bad('negative_element_count', str(count))
        dt = np.dtype(code).newbyteorder(order)
        stride = dt.itemsize + skip
        avail = max(0, (len(fh.data) - fh.pos + skip) // stride)
        cnt = avail if count is None else min(int(count), avail)
        out = np.ndarray((cnt,), dt, fh.data, fh.pos, (stride,)) if cnt else np.empty(0, dt)
        fh.pos = min(len(fh.data), fh.pos + cnt * stride)
        return out.astype(native(code))

    def open_files(self):
        return [f.literal for f in self.files.values()]

    # -- running --------------------------------------------------------------
    def parse(self, code):
        p = Parser(code, self.family, julia_strict_space=self.lang != 'julia_ver0')
        stmts = p.parse_program()
        for n in p.notes:
            self.note(n)
        return stmts, p.comments

    def run(self, stmts):
        for s in stmts:
            self.exec(s, self.env)

    def exec(self, stmt, env):
        return self.ev(stmt.node, env)

    def ev(self, node, env):
        meth = getattr(self, 'ev_' + node[0], None)
        if meth is None:
            self.lim('unsupported_construct', node[0])
        return meth(node, env)

    def ev_num(self, node, env):
        return node[1]

    def ev_str(self, node, env):
        return node[1]

    def ev_all(self, node, env):
        return ALLV

    def ev_empty(self, node, env):
        return ALLV

    def ev_null(self, node, env):
        return None

    def ev_un(self, node, env):
        v = self.ev(node[2], env)
        if node[1] == '+':
            return self.number(v)
        if node[1] == '-':
            v = self.number(v)
            return self.arith('-', v.dtype.type(0), v) if isinstance(v, np.integer) else -v
        self.lim('unary_operator', node[1])

    # -- values ---------------------------------------------------------------
    def number(self, v, what='operand'):
        if isinstance(v, np.ndarray) or is_scalar(v):
            return v
        self.rt('not_numeric', f'{what}: {type(v).__name__}')

    def integer(self, v, what):
        if isinstance(v, np.ndarray) and v.size == 1:
            v = v.reshape(-1)[0].item()
        if isinstance(v, np.generic):
            v = v.item()
        if isinstance(v, bool) or not isinstance(v, (int, float)):
            self.bad('not_a_number', f'{what}: {v!r}')
        if isinstance(v, float):
            if v != v or v in (float('inf'), float('-inf')) or v != int(v):
                self.bad('not_an_integer', f'{what}: {v!r}')
            v = int(v)
        return v

    def arith(self, op, a, b):
        try:
            return self._arith(op, a, b)
        except ValueError as e:
            if self.family == 'R':
                self.lim('vector_recycling', str(e))
            self.rt('nonconformant_operands', str(e))
        except (ZeroDivisionError, OverflowError) as e:
            self.lim('non_finite_arithmetic', str(e))

    def _arith(self, op, a, b):
        a, b = self.number(a), self.number(b)
        if op in ('+', '.+'):
            return a + b
        if op in ('-', '.-'):
            return a - b
        if op in ('*', '.*'):
            if op == '*' and isinstance(a, np.ndarray) and isinstance(b, np.ndarray) \
                    and a.size > 1 and b.size > 1:
                self.lim('matrix_product')
            return a * b
        if op in ('/', './'):
            if isinstance(b, np.ndarray) and op == '/' and b.size > 1:
                self.lim('matrix_division')
            if isinstance(a, int) and isinstance(b, int):
                if b == 0:
                    self.rt('division_by_zero')
                if self.family == 'idl':
                    return int(a / b)
                if a % b == 0 and self.family in ('mathematica', 'maple'):
                    return a // b
                if self.family in ('mathematica', 'maple'):
                    self.lim('rational_number')
            return a / b
        if op == '^':
            return a ** b
        cmp = {'==': 'eq', '!=': 'ne', '~=': 'ne', '<>': 'ne', '<': 'lt', '>': 'gt', '<=': 'le',
               '>=': 'ge'}.get(op, op)
        if cmp in ('eq', 'ne', 'lt', 'gt', 'le', 'ge'):
            if cmp in ('lt', 'gt', 'le', 'ge') and (isinstance(a, complex) or isinstance(b, complex)):
                self.lim('complex_ordering')
            return {'eq': lambda: a == b, 'ne': lambda: a != b, 'lt': lambda: a < b,
                    'gt': lambda: a > b, 'le': lambda: a <= b, 'ge': lambda: a >= b}[cmp]()
        self.lim('binary_operator', op)

    def truth(self, v, what='condition'):
        if isinstance(v, np.ndarray):
            if v.size != 1:
                self.rt('condition_not_scalar', what)
            v = v.reshape(-1)[0].item()
        if isinstance(v, np.generic):
            v = v.item()
        if not isinstance(v, (bool, int, float)):
            self.rt('condition_not_logical', what)
        return bool(v)

    def positions(self, s, n, what='subscript'):
        """Language-native positions for one subscript: ALLV | int | 1-d int array."""
        if s is ALLV:
            return ALLV
        if isinstance(s, Rng):
            return self.range_positions(s, n)
        if isinstance(s, np.ndarray):
            if s.dtype == bool:
                self.lim('logical_subscript')
            flat = s.reshape(-1, order='F')
            if flat.dtype.kind == 'f':
                if flat.size and not np.all(flat == np.floor(flat)):
                    self.rt('non_integer_subscript', what)
                flat = flat.astype(np.int64)
            if flat.dtype.kind not in 'iu':
                self.rt('bad_subscript_type', what)
            return flat.astype(np.int64)
        if is_scalar(s):
            if isinstance(s, np.generic):
                s = s.item()
            if isinstance(s, bool) or isinstance(s, complex):
                self.lim('logical_or_complex_subscript')
            if isinstance(s, float):
                if s != int(s):
                    self.rt('non_integer_subscript', f'{what}: {s!r}')
                s = int(s)
            return s
        self.rt('bad_subscript_type', f'{what}: {type(s).__name__}')

    def range_ends(self, r):
        a, b = r.a, r.b
        for x in (a, b):
            if x is ALLV:
                continue
            if isinstance(x, np.ndarray) and x.size == 1:
                continue
            if not is_scalar(x) or isinstance(x, complex):
                self.lim('range_endpoint', type(x).__name__)

        def conv(x):
            if x is ALLV:
                return x
            if isinstance(x, np.ndarray):
                x = x.reshape(-1)[0]
            x = x.item() if isinstance(x, np.generic) else x
            if isinstance(x, float):
                if x != int(x):
                    self.lim('non_integer_range')
                x = int(x)
            return int(x)
        return conv(a), conv(b)

    def range_positions(self, r, n):
        a, b = self.range_ends(r)
        return np.arange(a, b + 1, dtype=np.int64)

    def take(self, arr, subs, what='array'):
        """subs: one entry per axis of arr (ALLV | int | int array, native origin).
        Every axis is kept; returns (result, [axis was subscripted by a scalar])."""
        idx, scal = [], []
        for ax, (s, n) in enumerate(zip(subs, arr.shape)):
            if s is ALLV:
                idx.append(np.arange(n, dtype=np.intp))
                scal.append(False)
                continue
            scal.append(not isinstance(s, np.ndarray))
            p = np.atleast_1d(np.asarray(s, dtype=np.int64)) - self.origin
            if p.size and (p.min() < 0 or p.max() >= n):
                bad = int(p.min() if p.min() < 0 else p.max()) + self.origin
                self.rt('index_out_of_range', f'subscript {ax + 1} of {what}: position {bad} '
                                              f'outside extent {n}')
            idx.append(p.astype(np.intp))
        return arr[np.ix_(*idx)] if idx else arr, scal

    def result_array(self, v, scalar_shape=()):
        """Final value of a variable as ndarray in the language's dims."""
        if isinstance(v, np.ndarray):
            return v
        if is_scalar(v):
            return np.asarray(v).reshape(scalar_shape)
        if v is None:
            return np.empty((0,))
        self.lim('result_is_not_numeric', type(v).__name__)

    def call(self, fn, args):
        raise NotImplementedError

    def args_values(self, args, env):
        return [(kw, self.ev(n, env)) for kw, n in args]


# ---------------------------------------------------------------------------
# Matlab / Octave and Scilab
# ---------------------------------------------------------------------------

_ML_SRC = {'int8': 'i1', 'integer*1': 'i1', 'schar': 'i1', 'signed char': 'i1',
           'uint8': 'u1', 'uchar': 'u1', 'unsigned char': 'u1',
           'int16': 'i2', 'integer*2': 'i2', 'short': 'i2', 'uint16': 'u2', 'ushort': 'u2',
           'unsigned short': 'u2', 'int32': 'i4', 'integer*4': 'i4', 'int': 'i4',
           'uint32': 'u4', 'uint': 'u4', 'unsigned int': 'u4', 'int64': 'i8', 'integer*8': 'i8',
           'uint64': 'u8', 'single': 'f4', 'float32': 'f4', 'float': 'f4', 'real*4': 'f4',
           'double': 'f8', 'float64': 'f8', 'real*8': 'f8'}
_ML_CLASS = {'int8': 'i1', 'uint8': 'u1', 'int16': 'i2', 'uint16': 'u2', 'int32': 'i4',
             'uint32': 'u4', 'int64': 'i8', 'uint64': 'u8', 'single': 'f4', 'double': 'f8'}
_ML_MACHINEFMT = {'n': '=', 'native': '=', 'l': '<', 'ieee-le': '<', 'b': '>', 'ieee-be': '>',
                  'a': '<', 'ieee-le.l64': '<', 's': '>', 'ieee-be.l64': '>'}


def _min2d(a):
    """Matlab dims: at least 2, no trailing singleton beyond the second."""
    shape = list(a.shape)
    while len(shape) > 2 and shape[-1] == 1:
        shape.pop()
    while len(shape) < 2:
        shape.append(1)
    return a.reshape(shape, order='F')


class MatlabInterp(Interp):
    lang = family = 'matlab'
    constants = {'Inf': float('inf'), 'inf': float('inf'), 'pi': np.pi, 'true': True, 'false': False,
                 'NaN': float('nan'), 'nan': float('nan')}

    def __init__(self, cwd):
        super().__init__(cwd)
        self.next_fid = 3
        self.last_fid = None

    # -- nodes ----------------------------------------------------------------
    def ev_id(self, node, env):
        name = node[1]
        if name in env:
            return env[name]
        if name in self.constants:
            return self.constants[name]
        if name == 'end':
            self.lim('end_in_subscript')
        if getattr(self, 'b_' + name, None) is not None:
            return getattr(self, 'b_' + name)([])
        self.lim('unknown_name', name)

    def ev_list(self, node, env):
        rows = []
        for row in node[1]:
            vals = []
            for n in row:
                v = self.ev(n, env)
                if isinstance(v, Rng):
                    a, b = self.range_ends(v)
                    vals.extend(float(x) for x in range(a, b + 1))
                elif is_scalar(v) and not isinstance(v, complex):
                    vals.append(float(v))
                elif isinstance(v, np.ndarray) and v.ndim == 2 and v.shape[0] == 1 and len(node[1]) == 1:
                    vals.extend(v.reshape(-1).tolist())
                else:
                    self.lim('matrix_literal_element', type(v).__name__)
            if vals or len(node[1]) > 1:
                rows.append(vals)
        if not rows:
            return np.zeros((0, 0))
        if len({len(r) for r in rows}) != 1:
            self.rt('inconsistent_row_lengths')
        return np.array(rows, dtype=np.float64).reshape(len(rows), -1)

    def ev_bin(self, node, env):
        op = node[1]
        a, b = self.ev(node[2], env), self.ev(node[3], env)
        if op == ':':
            if isinstance(a, Rng):
                self.lim('stepped_range')
            return Rng(a, b)
        return self.arith(op, a, b)

    def ev_un(self, node, env):
        if node[1] == "'":
            v = self.ev(node[2], env)
            if is_scalar(v):
                return v
            if not isinstance(v, np.ndarray) or v.ndim != 2:
                self.rt('transpose_of_nd_array')
            return v.T.conj() if v.dtype.kind == 'c' else v.T
        return super().ev_un(node, env)

    def ev_func(self, node, env):
        return Func(node[2], node[3], dict(env), 'anon')

    def ev_assign(self, node, env):
        _, lhs, rhs, _ = node
        if lhs[0] != 'id':
            self.lim('indexed_assignment')
        v = self.ev(rhs, env)
        if v is None:
            self.rt('no_value_to_assign', lhs[1])
        env[lhs[1]] = v
        return v

    def ev_field(self, node, env):
        self.lim('field_access', node[2])

    def ev_app(self, node, env):
        _, f, args, br = node
        if f[0] == 'field' and f[1][0] == 'id' and f[1][1] not in env:
            name = f'{f[1][1]}_{f[2]}'
            if getattr(self, 'b_' + name, None) is not None:
                return getattr(self, 'b_' + name)([self.ev(n, env) for _, n in args])
            self.lim('unknown_function', f'{f[1][1]}.{f[2]}')
        if f[0] == 'id' and f[1] not in env:
            meth = getattr(self, 'b_' + f[1], None)
            if meth is None:
                self.lim('unknown_function', f[1])
            return meth([self.ev(n, env) for _, n in args])
        target = self.ev(f, env)
        vals = [self.ev(n, env) for _, n in args]
        if isinstance(target, Func):
            return self.call(target, vals)
        if isinstance(target, np.ndarray) or is_scalar(target):
            return self.index(self.arr(target), vals, f[1] if f[0] == 'id' else 'value')
        self.rt('not_indexable', type(target).__name__)

    # -- semantics --------------------------------------------------------------
    def arith(self, op, a, b):
        """Scalar arithmetic with an integer-class operand stays in that class:
        Matlab saturates (and rounds), Scilab wraps around."""
        ints = [x for x in (a, b) if isinstance(x, np.integer)]
        if not ints or not (is_scalar(a) and is_scalar(b)) or op not in ('+', '-', '*', '/', '.*', './'):
            return super().arith(op, a, b)
        dt = ints[0].dtype
        if len(ints) == 2 and ints[1].dtype != dt:
            if self.family == 'matlab':
                self.rt('integers_of_different_classes', f'{dt} {op} {ints[1].dtype}')
            self.lim('mixed_integer_classes')
        if any(isinstance(x, (complex, np.complexfloating)) for x in (a, b)):
            self.lim('complex_integer_arithmetic')
        from fractions import Fraction
        x, y = (Fraction(int(v)) if isinstance(v, (np.integer, int)) and not isinstance(v, bool)
                else Fraction(float(v)) if np.isfinite(float(v)) else None for v in (a, b))
        if x is None or y is None or (op in ('/', './') and y == 0):
            self.lim('non_finite_integer_arithmetic')
        r = x + y if op == '+' else x - y if op == '-' else x * y if op in ('*', '.*') else x / y
        n = int(abs(r) + Fraction(1, 2)) * (1 if r >= 0 else -1)       # round half away from zero
        info = np.iinfo(dt)
        if not info.min <= n <= info.max:
            if self.family == 'matlab':
                n = min(max(n, info.min), info.max)                     # saturation
            else:
                self.note('scilab: integer-type arithmetic overflow taken to wrap around')
                n = (n - info.min) % (info.max - info.min + 1) + info.min
        return dt.type(n)

    def arr(self, v):
        if isinstance(v, np.ndarray):
            return _min2d(v)
        if is_scalar(v):
            return np.array(v, dtype=np.float64 if isinstance(v, (bool, int, float)) else None).reshape(1, 1)
        self.rt('not_numeric', type(v).__name__)

    def call(self, fn, vals):
        if len(vals) != len(fn.params):
            self.rt('wrong_number_of_arguments', f'{len(vals)} for {len(fn.params)}')
        if fn.kind == 'anon':
            local = dict(fn.env)
            local.update({p[0]: v for p, v in zip(fn.params, vals)})
            return self.ev(fn.body[0].node, local)
        local = dict(self.env)           # Scilab: a function sees the caller's variables
        local.update({p: v for p, v in zip(fn.params, vals)})
        for s in fn.body:
            self.exec(s, local)
        if not fn.outs:
            return None
        if fn.outs[0] not in local or (fn.outs[0] in self.env and local[fn.outs[0]] is self.env[fn.outs[0]]):
            self.rt('output_not_assigned', fn.outs[0])
        return local[fn.outs[0]]

    def range_positions(self, r, n):
        a, b = self.range_ends(r)
        if b is ALLV or a is ALLV:
            self.lim('open_range')
        return np.arange(a, b + 1, dtype=np.int64)      # empty when a > b

    def index(self, A, vals, what):
        m = len(vals)
        if m == 0:
            return A
        if m == 1:
            flat = A.reshape(-1, order='F')
            s = self.positions(vals[0], flat.size)
            if s is ALLV:
                return flat.reshape(-1, 1)
            res, scal = self.take(flat, [s], what)
            if scal[0]:
                return self.element(res[0])
            src = vals[0]
            if isinstance(src, np.ndarray) and not (1 in src.shape and src.ndim == 2):
                return _min2d(res.reshape(src.shape, order='F'))
            is_vec = A.ndim == 2 and 1 in A.shape and A.size != 1
            if is_vec:
                return res.reshape((-1, 1) if A.shape[1] == 1 else (1, -1))
            if isinstance(src, np.ndarray):
                return res.reshape(src.shape, order='F')
            return res.reshape(1, -1)
        dims = list(A.shape)
        if m < len(dims):
            dims = dims[:m - 1] + [int(np.prod(dims[m - 1:]))]
        else:
            dims = dims + [1] * (m - len(dims))
        B = A.reshape(dims, order='F')
        subs = [self.positions(v, d, f'subscript {k + 1}') for k, (v, d) in enumerate(zip(vals, dims))]
        res, scal = self.take(B, subs, what)
        if all(scal):
            return self.element(res.reshape(-1)[0])
        return _min2d(res)

    @staticmethod
    def element(x):
        return x if isinstance(x, np.integer) else x.item()     # integer classes keep their class

    # -- builtins -----------------------------------------------------------------
    def handle(self, v, fn):
        if isinstance(v, (np.ndarray, np.generic)) and np.size(v) == 1:
            v = np.asarray(v).reshape(-1)[0].item()
        if isinstance(v, str) or not is_scalar(v):
            self.bad(f'{fn}_bad_file_identifier', repr(v))
        if v not in self.files:
            self.rt('invalid_file_identifier', f'{fn}: {v!r} is not an open file')
        return self.files[v]

    def b_fopen(self, a):
        if not 1 <= len(a) <= 4 or not all(isinstance(x, str) for x in a):
            self.bad('fopen_bad_arguments', repr(a))
        perm = a[1] if len(a) > 1 else 'r'
        if not re.fullmatch(r'r[bt]?', perm):
            if re.fullmatch(r'(r\+|[wa]\+?)[bt]?|[WA]', perm):
                self.lim('fopen_for_writing', perm)
            self.bad('fopen_bad_permission', perm)
        order = '='
        if len(a) > 2:
            if a[2] not in _ML_MACHINEFMT:
                self.bad('fopen_bad_machinefmt', repr(a[2]))
            order = _ML_MACHINEFMT[a[2]]
        fid = self.next_fid
        self.next_fid += 1
        self.files[fid] = self.load(a[0], order, perm)
        self.last_fid = fid
        return fid

    def b_fclose(self, a):
        if len(a) != 1:
            self.bad('fclose_bad_arguments', repr(a))
        if a[0] == 'all':
            self.files.clear()
            return 0
        fh = self.handle(a[0], 'fclose')
        for k in [k for k, v in self.files.items() if v is fh]:
            del self.files[k]
        return 0

    def b_fseek(self, a):
        if len(a) not in (2, 3):
            self.bad('fseek_bad_arguments', repr(a))
        fh = self.handle(a[0], 'fseek')
        off = self.integer(a[1], 'fseek offset')
        origin = a[2] if len(a) == 3 else 'bof'
        base = {'bof': 0, -1: 0, 'cof': fh.pos, 0: fh.pos, 'eof': len(fh.data), 1: len(fh.data)}
        if isinstance(origin, (np.ndarray, list)) or origin not in base:
            self.bad('fseek_bad_origin', repr(origin))
        new = base[origin] + off
        if not 0 <= new <= len(fh.data):
            self.note('matlab: fseek outside the file returns -1 without moving')
            return -1
        fh.pos = new
        return 0

    def b_frewind(self, a):
        self.handle(a[0] if a else None, 'frewind').pos = 0

    def precision(self, spec):
        s = spec.strip().lower()
        m = re.fullmatch(r'(\*)?\s*(?:(\d+)\s*\*\s*)?([a-z][a-z0-9* ]*?)\s*(?:=>\s*([a-z0-9]+))?', s)
        if not m:
            self.bad('fread_bad_precision', repr(spec))
        star, block, src, dst = m.groups()
        if block:
            self.lim('fread_block_precision', spec)
        if re.fullmatch(r'u?bit\d+|u?long|char|char\*1', src):
            self.lim('fread_precision', spec)
        if src not in _ML_SRC or (star and dst):
            self.bad('fread_bad_precision', f'{spec!r} is not a precision')
        if dst is not None and dst not in _ML_CLASS:
            if dst == 'char':
                self.lim('fread_precision', spec)
            if dst in _ML_SRC:
                # 'float32=>float32': the documentation lists one table of names "for source and output"; whether every
                # alias is accepted as output class is not certain enough for a verdict
                self.lim('fread_precision_output_alias', spec)
            self.bad('fread_bad_precision', f'{spec!r}: unknown output class')
        code = _ML_SRC[src]
        return code, (code if star else _ML_CLASS[dst] if dst else 'f8')

    def b_fread(self, a):
        if not a:
            self.bad('fread_bad_arguments', 'no file identifier')
        fh = self.handle(a[0], 'fread')
        rest, k = a[1:], 0
        size_a, prec, skip, order = float('inf'), 'uint8=>double', 0, fh.order
        if k < len(rest) and not isinstance(rest[k], str):
            size_a, k = rest[k], k + 1
        if k < len(rest):
            if not isinstance(rest[k], str):
                self.bad('fread_bad_precision', f'argument {k + 2} must be a precision string')
            prec, k = rest[k], k + 1
        if k < len(rest) and not isinstance(rest[k], str):
            skip, k = self.integer(rest[k], 'fread skip'), k + 1
            if skip < 0:
                self.lim('fread_negative_skip')
        if k < len(rest):
            if not isinstance(rest[k], str) or rest[k] not in _ML_MACHINEFMT:
                self.bad('fread_bad_machinefmt', f'{rest[k]!r} is not a machine format')
            order, k = _ML_MACHINEFMT[rest[k]], k + 1
        if k < len(rest):
            self.bad('fread_too_many_arguments', repr(rest[k:]))
        code, out = self.precision(prec)
        # sizeA: scalar n, Inf, or [m n]
        if isinstance(size_a, Rng):
            self.lim('fread_size_range')
        dims = np.asarray(size_a, dtype=np.float64).reshape(-1)
        if dims.size not in (1, 2) or np.any(dims < 0) or np.any(np.isnan(dims)) or \
                (dims.size == 2 and np.isinf(dims[0])):
            self.bad('fread_bad_size', f'sizeA must be a scalar or [m n], got {dims.tolist()}')
        if np.any((dims != np.floor(dims)) & ~np.isinf(dims)):
            self.bad('fread_bad_size', f'non-integer sizeA {dims.tolist()}')
        want = None if np.isinf(dims).any() and dims.size == 1 else \
            None if np.isinf(dims[-1]) else int(np.prod(dims))
        data = self.read(fh, code, want, order, skip).astype(native(out))
        if dims.size == 1:
            return data.reshape(-1, 1)
        m = int(dims[0])
        ncol = -(-data.size // m) if m else 0
        if np.isfinite(dims[1]) and data.size == int(np.prod(dims)):
            ncol = int(dims[1])
        full = np.zeros(m * ncol, dtype=data.dtype)
        full[:data.size] = data
        return full.reshape((m, ncol), order='F')

    def dims_from(self, a, fn):
        if len(a) == 1:
            d = a[0]
            if not isinstance(d, np.ndarray) or d.ndim != 2 or 1 not in d.shape and d.size:
                if is_scalar(d) and self.family == 'scilab':
                    return [self.integer(d, fn + ' size')]
                self.bad(f'{fn}_bad_size', repr(d))
            dims = [self.integer(x, fn + ' size') for x in d.reshape(-1)]
            if self.family == 'matlab' and len(dims) < 2:
                self.bad(f'{fn}_bad_size', 'size vector needs at least two elements')
            return dims
        return [None if isinstance(x, np.ndarray) and x.size == 0 else self.integer(x, fn + ' size')
                for x in a]

    def b_reshape(self, a, fn='reshape'):
        if len(a) < 2:
            self.bad(f'{fn}_bad_arguments', f'{len(a)} arguments')
        A = self.arr(a[0])
        dims = self.dims_from(a[1:], fn)
        holes = [k for k, d in enumerate(dims) if d is None or d == -1 and self.family == 'scilab']
        if len(holes) > 1:
            self.bad(f'{fn}_bad_size', 'more than one free dimension')
        if holes:
            rest = int(np.prod([d for k, d in enumerate(dims) if k not in holes]))
            if rest == 0 or A.size % rest:
                self.rt(f'{fn}_size_mismatch', f'{A.size} elements into {dims}')
            dims[holes[0]] = A.size // rest
        if any(d < 0 for d in dims):
            self.bad(f'{fn}_bad_size', repr(dims))
        if int(np.prod(dims)) != A.size:
            self.rt(f'{fn}_size_mismatch', f'{A.size} elements into {dims}')
        return _min2d(A.reshape(-1, order='F').reshape(dims, order='F'))

    def b_squeeze(self, a):
        if len(a) != 1:
            self.bad('squeeze_bad_arguments')
        A = self.arr(a[0])
        if A.ndim <= 2:
            return A
        dims = [d for d in A.shape if d != 1]
        if len(dims) < 2:
            if self.family == 'scilab':
                self.note('scilab: orientation of squeeze() result when fewer than two '
                          'non-singleton dimensions remain (column assumed, as Matlab)')
            dims = (dims + [1, 1])[:2]
        return A.reshape(dims, order='F')

    def b_complex(self, a):
        if len(a) != 2:
            self.bad('complex_bad_arguments', f'{len(a)} arguments')
        re_, im_ = self.arr(a[0]), self.arr(a[1])
        if re_.dtype.kind == 'c' or im_.dtype.kind == 'c':
            self.rt('complex_of_complex_input')
        if re_.shape != im_.shape and re_.size != 1 and im_.size != 1:
            self.rt('complex_size_mismatch', f'{re_.shape} vs {im_.shape}')
        kinds = {re_.dtype.name, im_.dtype.name}
        if self.family == 'scilab':
            out = np.complex128
        elif kinds <= {'float32', 'float64'}:
            out = np.complex64 if 'float32' in kinds else np.complex128
        else:
            self.lim('complex_integer_class', repr(kinds))
        res = np.empty(np.broadcast(re_, im_).shape, dtype=out)
        res.real, res.imag = re_, im_
        return res

    def b_half_typecast(self, a):
        if len(a) != 1 or not isinstance(a[0], np.ndarray) or a[0].dtype.name not in ('uint16', 'int16'):
            self.bad('half_typecast_bad_argument', 'needs an int16/uint16 array')
        self.note('matlab: half.typecast(uint16 array) taken to reinterpret the bits as IEEE half '
                  '(Fixed-Point Designer; not available in Octave)')
        return np.ascontiguousarray(a[0]).view(np.float16)

    def b_double(self, a):
        return self.arr(a[0]).astype(np.float64)

    def b_single(self, a):
        return self.arr(a[0]).astype(np.float32)

    def b_numel(self, a):
        return float(self.arr(a[0]).size)

    def b_permute(self, a):
        A = self.arr(a[0])
        order = [self.integer(x, 'permute order') - 1 for x in np.asarray(a[1]).reshape(-1)]
        if sorted(order) != list(range(len(order))) or len(order) < A.ndim:
            self.rt('permute_bad_order', repr(order))
        A = A.reshape(list(A.shape) + [1] * (len(order) - A.ndim))
        return _min2d(np.transpose(A, order))


class ScilabInterp(MatlabInterp):
    lang = family = 'scilab'
    constants = {'%inf': float('inf'), '%pi': np.pi, '%t': True, '%f': False, '%T': True, '%F': False,
                 '%nan': float('nan')}
    b_fopen = b_fclose = b_fseek = b_fread = b_frewind = b_half_typecast = b_reshape = None
    b_single = b_permute = b_numel = None

    def sfile(self, a, fn):
        if a and isinstance(a[0], str):
            self.bad(f'{fn}_bad_file_descriptor', repr(a[0]))
        if not a or (is_scalar(a[0]) and a[0] == -1):
            if self.last_fid not in self.files:
                self.rt('invalid_file_identifier', f'{fn}: no file is open')
            return self.files[self.last_fid]
        return self.handle(a[0], fn)

    def b_mopen(self, a):
        if not 1 <= len(a) <= 3 or not all(isinstance(x, str) for x in a[:2]):
            self.bad('mopen_bad_arguments', repr(a))
        mode = a[1] if len(a) > 1 else 'rb'
        if not re.fullmatch(r'r[bt]?', mode):
            if re.fullmatch(r'(r\+|[wa]\+?)[bt]?|[rwa][bt]?\+', mode):
                self.lim('mopen_for_writing', mode)
            self.bad('mopen_bad_mode', mode)
        fid = self.next_fid
        self.next_fid += 1
        self.files[fid] = self.load(a[0], '=', mode)
        self.last_fid = fid
        return fid

    def b_mclose(self, a):
        if len(a) > 1:
            self.bad('mclose_bad_arguments', repr(a))
        if a and a[0] == 'all':
            self.files.clear()
            return 0
        fh = self.sfile(a, 'mclose')
        for k in [k for k, v in self.files.items() if v is fh]:
            del self.files[k]
        return 0

    def b_mseek(self, a):
        if not 1 <= len(a) <= 3:
            self.bad('mseek_bad_arguments', repr(a))
        fh = self.sfile(a[1:2], 'mseek')
        flag = a[2] if len(a) == 3 else 'set'
        base = {'set': 0, 'cur': fh.pos, 'end': len(fh.data)}
        if flag not in base:
            self.bad('mseek_bad_flag', repr(flag))
        new = base[flag] + self.integer(a[0], 'mseek offset')
        if not 0 <= new <= len(fh.data):
            self.rt('mseek_outside_file')
        fh.pos = new

    def mget(self, a, fn, integer):
        if len(a) > 3:
            self.bad(f'{fn}_too_many_arguments', repr(a))
        n = self.integer(a[0], f'{fn} count') if a else 1
        fmt = a[1] if len(a) > 1 else 'l'
        if not isinstance(fmt, str):
            self.bad(f'{fn}_bad_type', f'second argument must be a type string, got {fmt!r}')
        m = re.fullmatch(r'(u?[csil]|[fd])([lb]?)', fmt)
        if not m or (integer and m.group(1) in 'fd'):
            self.bad(f'{fn}_bad_type', f'{fmt!r} is not a valid binary format')
        fh = self.sfile(a[2:3], fn)
        t, e = m.groups()
        code = {'c': 'i1', 's': 'i2', 'i': 'i4', 'l': 'i8', 'f': 'f4', 'd': 'f8'}[t[-1]]
        if t[0] == 'u':
            code = 'u' + code[1]
        if t[-1] == 'l':
            self.note("scilab: binary type 'l' taken as 8 bytes (Scilab >= 6; it was 4 bytes in Scilab 5)")
        data = self.read(fh, code, n, {'l': '<', 'b': '>', '': '='}[e])
        if data.size < n:
            self.note(f'scilab: {fn} asked for {n} elements but the file holds {data.size}')
        return (data if integer else data.astype(np.float64)).reshape(1, -1)

    def b_mget(self, a):
        return self.mget(a, 'mget', False)

    def b_mgeti(self, a):
        return self.mget(a, 'mgeti', True)

    def b_matrix(self, a):
        return MatlabInterp.b_reshape(self, a, 'matrix')

    def b_deff(self, a):
        if len(a) < 2 or not isinstance(a[0], str):
            self.bad('deff_bad_arguments', repr(a))
        m = re.fullmatch(r'\s*(?:(?:\[([\w\s,%]*)\]|([\w%]+))\s*=\s*)?([\w%]+)\s*(?:\(([\w\s,%]*)\))?\s*', a[0])
        if not m:
            self.bad('deff_bad_header', repr(a[0]))
        outs = tuple(x for x in re.split(r'[\s,]+', m.group(1) or m.group(2) or '') if x)
        params = [x for x in re.split(r'[\s,]+', m.group(4) or '') if x]
        body = a[1] if isinstance(a[1], str) else None
        if body is None:
            self.lim('deff_body_matrix')
        stmts, _ = self.parse(body)
        self.env[m.group(3)] = Func(params, stmts, self.env, 'deff', m.group(3), outs)
        return None

    def ev_assign(self, node, env):
        if node[2][0] == 'app' and node[2][1] == ('id', 'deff'):
            self.rt('deff_returns_nothing')
        return super().ev_assign(node, env)


# ---------------------------------------------------------------------------
# R
# ---------------------------------------------------------------------------

from collections import ChainMap  # noqa: E402  (kept next to its only user)

_R_FORMALS = {
    'file': ('description', 'open', 'blocking', 'encoding', 'method', 'raw'),
    'readBin': ('con', 'what', 'n', 'size', 'signed', 'endian'),
    'array': ('data', 'dim', 'dimnames'),
    'matrix': ('data', 'nrow', 'ncol', 'byrow', 'dimnames'),
    'close': ('con',), 'numeric': ('length',), 'double': ('length',), 'integer': ('length',),
    'complex': ('length.out',), 'length': ('x',), 'dim': ('x',), 'as.integer': ('x',),
    'as.numeric': ('x',), 'return': ('value',),
}
_R_WHAT = {'numeric': 'f8', 'double': 'f8', 'integer': 'i4', 'int': 'i4', 'complex': 'c16'}


class RInterp(Interp):
    lang = family = 'R'
    constants = {'TRUE': True, 'FALSE': False, 'T': True, 'F': False, 'NULL': None,
                 'Inf': float('inf'), 'pi': np.pi}

    def ev_num(self, node, env):
        return float(node[1])           # plain numeric literals are doubles in R

    def ev_id(self, node, env):
        name = node[1]
        if name in env:
            return env[name]
        if name in self.constants:
            return self.constants[name]
        self.lim('unknown_name', name)

    def ev_block(self, node, env):
        val = None
        for s in node[1]:
            val = self.exec(s, env)
        return val

    def ev_if(self, node, env):
        c = self.ev(node[1], env)
        if c is None or (isinstance(c, np.ndarray) and c.size != 1):
            self.rt('if_condition_length_not_one')
        if self.truth(c):
            return self.ev(node[2], env)
        return self.ev(node[3], env) if node[3] is not None else None

    def ev_func(self, node, env):
        return Func(node[2], node[3], env, 'R')

    def ev_assign(self, node, env):
        _, lhs, rhs, op = node
        if op == '<<-':
            self.lim('superassignment')
        if lhs[0] not in ('id', 'str'):
            self.lim('replacement_function_or_indexed_assignment')
        v = self.ev(rhs, env)
        env[lhs[1]] = v
        return v

    def ev_bin(self, node, env):
        op = node[1]
        a, b = self.ev(node[2], env), self.ev(node[3], env)
        if op == ':':
            a, b = self.range_ends(Rng(a, b))
            step = 1 if b >= a else -1      # R counts down when from > to
            return np.arange(a, b + step, step, dtype=np.int64)
        if a is None or b is None:
            self.lim('arithmetic_with_NULL')
        return self.arith(op, a, b)

    def ev_app(self, node, env):
        _, f, args, br = node
        if br == '[':
            target = self.ev(f, env)
            named = [kw for kw, _ in args if kw is not None]
            if named:
                # v[, i:j, drop=FALSE]: named arguments of `[` are options, not subscripts; dropping is not modelled
                self.lim('named_argument_of_subscript', ','.join(named))
            return self.index(target, [self.ev(n, env) for _, n in args],
                              f[1] if f[0] == 'id' else 'value')
        if f[0] == 'id' and f[1] not in env:
            meth = getattr(self, 'b_' + f[1].replace('.', '_'), None)
            if meth is None:
                self.lim('unknown_function', f[1])
            vals = [(kw, self.ev(n, env)) for kw, n in args if n != EMPTY]
            if f[1] == 'c':
                return meth(vals)
            return meth(self.match(f[1], _R_FORMALS[f[1]], vals))
        fn = self.ev(f, env)
        if not isinstance(fn, Func):
            self.rt('attempt_to_apply_non_function')
        return self.call(fn, [(kw, self.ev(n, env)) for kw, n in args])

    # -- semantics ----------------------------------------------------------------
    def match(self, fname, formals, vals):
        """R argument matching: exact name, unique partial name, then position."""
        out, rest = {}, []
        for kw, v in vals:
            if kw is None:
                rest.append(v)
                continue
            cands = [p for p in formals if p == kw] or [p for p in formals if p.startswith(kw)]
            if len(cands) != 1 or cands[0] in out:
                self.bad('unused_argument', f'{fname}({kw}=...)')
            out[cands[0]] = v
        free = [p for p in formals if p not in out]
        if len(rest) > len(free):
            self.bad('unused_argument', f'{fname}: too many arguments')
        out.update(zip(free, rest))
        return out

    def call(self, fn, vals):
        names = [p[0] for p in fn.params]
        bound = self.match('function', names, vals)
        for p in fn.params:
            if p[0] not in bound:
                if p[1] is None:
                    self.rt('argument_missing', p[0])
                bound[p[0]] = self.ev(p[1], fn.env)
        local = ChainMap(bound, fn.env)
        try:
            val = None
            for s in fn.body:
                val = self.exec(s, local)
            return val
        except _Return as r:
            return r.value

    def vec(self, v):
        if isinstance(v, np.ndarray):
            return v
        if v is None:
            return np.empty(0)
        if is_scalar(v):
            return np.asarray(v).reshape(1)
        self.rt('not_a_vector', type(v).__name__)

    def rsub(self, s, n, what):
        s = self.positions(s.reshape(-1) if isinstance(s, np.ndarray) else s, n, what)
        if s is ALLV:
            return s
        p = np.atleast_1d(np.asarray(s, dtype=np.int64))
        if (p < 0).any():
            self.lim('negative_subscript')
        return p[p != 0]                     # zero subscripts are dropped

    def index(self, x, subs, what):
        if x is None:
            return None
        A = self.vec(x)
        m = len(subs)
        if m == 0 or (m == 1 and subs[0] is ALLV):
            return A
        if m == 1:
            flat = A.reshape(-1, order='F')
            p = self.rsub(subs[0], flat.size, what)
            if p.size and p.max() > flat.size:
                self.rt('subscript_beyond_length_gives_NA', f'{what}[{int(p.max())}] of {flat.size}')
            return self.take(flat, [p], what)[0]
        if A.ndim < 2 or m != A.ndim:
            self.rt('incorrect_number_of_dimensions', f'{what} has {A.ndim if A.ndim > 1 else "no"} '
                                                      f'dims, {m} subscripts')
        ps = [self.rsub(s, d, f'subscript {k + 1}') for k, (s, d) in enumerate(zip(subs, A.shape))]
        res, _ = self.take(A, ps, what)
        dims = [d for d in res.shape if d != 1]     # drop = TRUE
        return res.reshape(dims if len(dims) > 1 else (-1,), order='F')

    # -- builtins -------------------------------------------------------------------
    def b_c(self, vals):
        if not vals:
            return None
        parts = [self.vec(v).reshape(-1, order='F') for _, v in vals if v is not None]
        if not parts:
            return None
        out = np.concatenate(parts)
        return out.astype(np.float64) if out.dtype.kind in 'biu' and any(
            p.dtype.kind == 'f' for p in parts) else out

    def empty_vector(self, a, code, fn):
        n = self.integer(a.get('length', a.get('length.out', 0.0)), f'{fn} length')
        return np.zeros(n, dtype=native(code))

    def b_numeric(self, a):
        return self.empty_vector(a, 'f8', 'numeric')

    b_double = b_numeric

    def b_integer(self, a):
        return self.empty_vector(a, 'i4', 'integer')

    def b_complex(self, a):
        return self.empty_vector(a, 'c16', 'complex')

    def b_return(self, a):
        raise _Return(a.get('value'))

    def b_length(self, a):
        return float(self.vec(a['x']).size)

    def b_dim(self, a):
        A = self.vec(a['x'])
        return np.array(A.shape, dtype=np.float64) if A.ndim > 1 else None

    def b_as_numeric(self, a):
        return self.vec(a['x']).reshape(-1, order='F').astype(np.float64)

    def b_as_integer(self, a):
        return self.vec(a['x']).reshape(-1, order='F').astype(np.int32)

    def b_file(self, a):
        for k in ('blocking', 'encoding', 'method', 'raw'):
            if k in a:
                self.lim('file_option', k)
        mode = a.get('open', '')
        if 'description' not in a or not isinstance(a['description'], str) or not isinstance(mode, str):
            self.bad('file_bad_arguments', repr(a))
        if mode not in ('', 'r', 'rt', 'rb'):
            if re.fullmatch(r'[rwa]\+?[bt]?|[wa][bt]?\+?', mode):
                self.lim('file_opened_for_writing', mode)
            self.bad('file_bad_open_mode', repr(mode))
        fh = self.load(a['description'], '<', mode)
        self.files[id(fh)] = fh
        return fh

    def b_close(self, a):
        fh = a.get('con')
        if not isinstance(fh, FileH):
            self.bad('close_bad_connection', repr(fh))
        if id(fh) not in self.files:
            self.rt('invalid_connection', 'close of a closed connection')
        del self.files[id(fh)]
        return None

    def b_readBin(self, a):
        if 'con' not in a or 'what' not in a:
            self.bad('readBin_missing_argument', 'con and what are required')
        con, what = a['con'], a['what']
        temp = False
        if isinstance(con, str):
            con, temp = self.load(con, '<', 'rb'), True
        if not isinstance(con, FileH):
            self.bad('readBin_bad_connection', repr(con))
        if not temp and id(con) not in self.files:
            self.rt('invalid_connection', 'readBin on a closed connection')
        if con.mode in ('r', 'rt'):
            self.bad('readBin_text_mode_connection', 'can only read from a binary connection')
        if con.mode == '':
            con.pos = 0          # unopened connection: opened "rb" for the duration of the call
        if isinstance(what, str):
            if what not in _R_WHAT:
                if what in ('logical', 'character', 'raw'):
                    self.lim('readBin_what', what)
                self.bad('readBin_bad_what', repr(what))
            code = _R_WHAT[what]
        elif isinstance(what, np.ndarray) and what.dtype.str[1:] in ('f8', 'i4', 'c16'):
            code = what.dtype.str[1:]
        else:
            self.bad('readBin_bad_what', repr(what))
        n = self.integer(a.get('n', 1.0), 'readBin n')
        if n < 0:
            self.bad('readBin_bad_n', str(n))
        natural = {'f8': 8, 'i4': 4, 'c16': 16}[code]
        size = a.get('size', None)
        size = natural if size is None else self.integer(size, 'readBin size')
        signed = a.get('signed', True)
        if not isinstance(signed, (bool, np.bool_)):
            self.bad('readBin_bad_signed', repr(signed))
        endian = a.get('endian', 'little')
        if endian not in ('little', 'big', 'swap'):
            self.bad('readBin_bad_endian', repr(endian))
        order = {'little': '<', 'big': '>', 'swap': '>'}[endian]
        if code == 'c16':
            if size != 16:
                self.bad('readBin_bad_size', 'size changing is not supported for complex vectors')
            return self.read(con, 'c16', n, order)
        if code == 'f8':
            if size not in (4, 8):
                if size in (12, 16):
                    self.lim('readBin_long_double')
                self.bad('readBin_bad_size', f'size {size} is unknown for numeric')
            return self.read(con, f'f{size}', n, order).astype(np.float64)
        if size not in (1, 2, 4, 8):
            self.bad('readBin_bad_size', f'size {size} is unknown for integer')
        if not signed and size > 2:
            self.note("R: signed=FALSE is only honoured for integer sizes 1 and 2 (warning); read as signed")
            signed = True
        raw = self.read(con, ('i' if signed else 'u') + str(size), n, order)
        if size == 8 and raw.size and (np.abs(raw) > 2147483647).any():
            self.note('R: readBin(integer(), size=8) of values outside the 32-bit range '
                      '(C cast to int assumed)')
        out = raw.astype(np.int64).astype(np.int32)
        if out.size and (out == np.iinfo(np.int32).min).any():
            self.note('R: the bit pattern INT_MIN is NA_integer_ in R')
        return out

    def b_array(self, a):
        if a.get('dimnames') is not None:
            self.lim('array_dimnames')
        data = self.vec(a['data']).reshape(-1, order='F') if 'data' in a else None
        if data is None:
            self.lim('array_of_NA')
        dim = a.get('dim')
        dims = [data.size] if dim is None else [self.integer(x, 'array dim') for x in self.vec(dim).reshape(-1)]
        if not dims or any(d < 0 for d in dims):
            self.rt('array_bad_dim', repr(dims))
        total = int(np.prod(dims))
        if data.size == 0 and total > 0:
            self.lim('array_filled_with_NA')
        if data.size != total and total:
            self.note('R: array() recycles/truncates data whose length differs from prod(dim)')
            data = np.resize(data, total)
        elif total == 0:
            data = data[:0]
        return data.reshape(dims, order='F')

    def b_matrix(self, a):
        self.lim('matrix_function')


# ---------------------------------------------------------------------------
# Julia (flavours: julia_ver0 = before 1.0, julia_ver1 / julia = 1.x)
# ---------------------------------------------------------------------------

_JL_TYPES = {'Int8': 'i1', 'Int16': 'i2', 'Int32': 'i4', 'Int64': 'i8', 'Int': 'i8',
             'UInt8': 'u1', 'UInt16': 'u2', 'UInt32': 'u4', 'UInt64': 'u8', 'UInt': 'u8',
             'Float16': 'f2', 'Float32': 'f4', 'Float64': 'f8', 'ComplexF32': 'c8',
             'ComplexF64': 'c16', 'Complex64': None, 'Complex128': None}
_JL_TYPECONS = {'Array': None, 'Vector': 1, 'Matrix': 2, 'Complex': 'complex'}
_JL_BUILTINS = ('open', 'close', 'read', 'read!', 'map', 'ltoh', 'ntoh', 'htol', 'hton', 'bswap',
                'identity', 'reshape', 'size', 'length')
_UNDEF = ('undef',)


def _jl_scalar_only(name):
    def b(self, a):
        if len(a) != 1:
            self.bad(f'{name}_bad_arguments')
        if isinstance(a[0], np.ndarray):
            self.bad(f'{name}_of_array', f'{name} has no method for arrays; use map or broadcasting')
        self.lim('scalar_byte_swap')
    return b


class JuliaInterp(Interp):
    lang = 'julia'
    family = 'julia'
    constants = {'true': True, 'false': False, 'nothing': None, 'pi': np.pi, 'Inf': float('inf')}

    def old(self):
        return self.lang == 'julia_ver0'

    def ev_id(self, node, env):
        name = node[1]
        if name in env:
            return env[name]
        if name in _JL_TYPES:
            code = _JL_TYPES[name]
            if code is None:        # Complex64/Complex128 were the pre-0.7 names
                if not self.old():
                    self.bad('unknown_type', f'{name} does not exist in Julia 1.x')
                code = {'Complex64': 'c8', 'Complex128': 'c16'}[name]
            elif name in ('ComplexF32', 'ComplexF64') and self.old():
                self.note(f'julia: {name} exists only from Julia 0.7 on')
            return ('T', code)
        if name in _JL_TYPECONS:
            return ('TC', name)
        if name == 'undef':
            return _UNDEF
        if name in _JL_BUILTINS:
            return ('B', name)
        if name in self.constants:
            return self.constants[name]
        if name == 'end':
            self.lim('end_in_subscript')
        if re.fullmatch(r'(U?Int|Float|ComplexF|Complex)\d+', name):
            self.bad('unknown_type', name)
        self.lim('unknown_name', name)

    def ev_tuple(self, node, env):
        return tuple(self.ev(n, env) for n in node[1])

    def ev_splat(self, node, env):
        return ('splat', self.ev(node[1], env))

    def ev_list(self, node, env):
        vals = [self.ev(n, env) for n in node[1][0]]
        if not all(is_scalar(v) for v in vals):
            self.lim('vector_literal_element')
        return np.array(vals) if vals else np.empty(0)

    def ev_bin(self, node, env):
        op = node[1]
        if op in ('->', '::'):
            self.lim('operator', op)
        a, b = self.ev(node[2], env), self.ev(node[3], env)
        if op == ':':
            if isinstance(a, Rng):
                self.lim('stepped_range')
            return Rng(a, b)
        return self.arith(op, a, b)

    def ev_func(self, node, env):
        fn = Func(node[2], node[3], self.env, 'julia', node[1])
        env[node[1]] = fn
        return fn

    def ev_return(self, node, env):
        raise _Return(self.ev(node[1], env))

    def ev_assign(self, node, env):
        _, lhs, rhs, op = node
        if lhs[0] == 'app' and lhs[3] == '(' and lhs[1][0] == 'id':      # f(k) = expr
            params = [param_of(n) for _, n in lhs[2]]
            if any(p is None or p[1] is not None and p[1][0] in ('pattern', 'bin') for p in params):
                self.lim('short_function_definition')
            env[lhs[1][1]] = Func(params, [Stmt(rhs, 0, '')], self.env, 'julia', lhs[1][1])
            return env[lhs[1][1]]
        if lhs[0] != 'id':
            self.lim('indexed_or_destructuring_assignment')
        v = self.ev(rhs, env)
        env[lhs[1]] = v
        return v

    def args(self, args, env):
        out = []
        for kw, n in args:
            v = self.ev(n, env)
            if isinstance(v, tuple) and v and v[0] == 'splat':
                if not isinstance(v[1], (tuple, np.ndarray)):
                    self.lim('splat_of', type(v[1]).__name__)
                out.extend(v[1])
            else:
                out.append(v)
        return out

    def ev_app(self, node, env):
        _, f, args, br = node
        target = self.ev(f, env)
        vals = self.args(args, env)
        if br == '{':
            return self.curly(target, vals)
        if br == '[':
            if not isinstance(target, np.ndarray):
                self.lim('indexing_of', type(target).__name__)
            return self.index(target, vals, f[1] if f[0] == 'id' else 'value')
        if isinstance(target, Func):
            return self.call(target, vals)
        if isinstance(target, tuple) and target and target[0] == 'B':
            return getattr(self, 'b_' + target[1].replace('!', '_bang'))(vals)
        if isinstance(target, tuple) and target and target[0] == 'ArrayT':
            return self.construct(target, vals)
        if isinstance(target, tuple) and target and target[0] == 'T':
            if len(vals) == 1 and is_scalar(vals[0]):
                return native(target[1]).type(vals[0]).item()
            self.lim('type_conversion_call')
        if isinstance(target, tuple) and target and target[0] == 'TC':
            self.lim('untyped_array_constructor', target[1])
        self.rt('not_callable', type(target).__name__)

    def curly(self, target, vals):
        if not (isinstance(target, tuple) and target and target[0] == 'TC'):
            self.lim('type_parameters_on', repr(target))
        kind = _JL_TYPECONS[target[1]]
        if not vals or not (isinstance(vals[0], tuple) and vals[0] and vals[0][0] == 'T'):
            self.bad('bad_type_parameter', f'{target[1]}{{...}}')
        code = vals[0][1]
        if kind == 'complex':
            if len(vals) != 1:
                self.bad('bad_type_parameter', 'Complex takes one parameter')
            if code not in ('f4', 'f8'):
                self.lim('complex_element_type', code)
            return ('T', 'c8' if code == 'f4' else 'c16')
        nd = kind
        if len(vals) == 2 and kind is None:
            nd = self.integer(vals[1], 'Array{T,N}')
        elif len(vals) != 1:
            self.bad('bad_type_parameter', f'{target[1]} with {len(vals)} parameters')
        return ('ArrayT', code, nd)

    def dims(self, vals, what):
        if len(vals) == 1 and isinstance(vals[0], tuple):
            vals = list(vals[0])
        dims = []
        for v in vals:
            if isinstance(v, (float, str)) or not is_scalar(v):
                self.bad(f'{what}_bad_dims', repr(v))
            dims.append(self.integer(v, what + ' dims'))
        if any(d < 0 for d in dims):
            self.rt(f'{what}_negative_dims', repr(dims))
        return dims

    def construct(self, t, vals):
        if not vals or vals[0] is not _UNDEF:
            if self.old() and vals and vals[0] is not None:
                self.note('julia: Array{T}(dims...) without undef (pre-0.7 form)')
                vals = [_UNDEF] + vals
            else:
                self.lim('array_constructor_without_undef')
        dims = self.dims(vals[1:], 'array_constructor')
        if t[2] is not None and t[2] != len(dims):
            self.bad('array_constructor_rank_mismatch', f'N={t[2]} but {len(dims)} dims')
        return np.zeros(dims, dtype=native(t[1]))

    def call(self, fn, vals):
        if len(vals) != len(fn.params):
            self.rt('no_matching_method', f'{fn.name} with {len(vals)} arguments')
        for (p, typ), v in zip(fn.params, vals):
            if typ and typ[0] == 'id' and typ[1] in ('Int', 'Integer', 'Int64') and \
                    (isinstance(v, bool) or not isinstance(v, int)):
                self.rt('no_matching_method', f'{fn.name}({p}::{typ[1]})')
        local = ChainMap({p[0]: v for p, v in zip(fn.params, vals)}, fn.env)
        try:
            val = None
            for s in fn.body:
                val = self.exec(s, local)
            return val
        except _Return as r:
            return r.value

    def index(self, A, vals, what):
        m = len(vals)
        if m == 0:
            self.lim('empty_subscript')
        for v in vals:
            if isinstance(v, float):
                self.rt('invalid_index_type', repr(v))
        if m == 1 and A.ndim != 1:
            B = A.reshape(-1, order='F')
        elif m < A.ndim:
            if any(d != 1 for d in A.shape[m:]):
                self.rt('bounds_error', f'{m} subscripts for {A.ndim}-dimensional {what}')
            B = A.reshape(A.shape[:m], order='F')
        else:
            B = A.reshape(list(A.shape) + [1] * (m - A.ndim), order='F')
        subs = [self.positions(v, d, f'subscript {k + 1}') for k, (v, d) in enumerate(zip(vals, B.shape))]
        res, scal = self.take(B, subs, what)
        if all(scal):
            return res.reshape(-1)[0].item()
        return res.reshape([d for d, s in zip(res.shape, scal) if not s], order='F')

    # -- builtins ---------------------------------------------------------------
    def io(self, v, fn):
        if isinstance(v, str):
            self.lim(f'{fn}_with_file_name', 'methods taking a file name instead of a stream are not modelled')
        if not isinstance(v, FileH):
            self.bad(f'{fn}_bad_stream', f'first argument must be an IO stream, got {v!r}')
        if id(v) not in self.files:
            self.rt('stream_closed', fn)
        return v

    def b_open(self, a):
        if not 1 <= len(a) <= 2 or not all(isinstance(x, str) for x in a):
            self.bad('open_bad_arguments', repr(a))
        mode = a[1] if len(a) == 2 else 'r'
        if mode != 'r':
            if mode in ('w', 'a', 'r+', 'w+', 'a+'):
                self.lim('open_for_writing', mode)
            self.bad('open_bad_mode', repr(mode))
        fh = self.load(a[0], '=', mode)
        self.files[id(fh)] = fh
        return fh

    def b_close(self, a):
        if len(a) != 1:
            self.bad('close_bad_arguments')
        if not isinstance(a[0], FileH):
            self.bad('close_bad_stream', repr(a[0]))
        self.files.pop(id(a[0]), None)       # closing twice is harmless in Julia
        return None

    def b_read_bang(self, a):
        if len(a) != 2:
            self.bad('read!_bad_arguments', f'{len(a)} arguments')
        fh = self.io(a[0], 'read!')
        if not isinstance(a[1], np.ndarray):
            self.bad('read!_bad_destination', repr(a[1]))
        A = a[1]
        data = self.read(fh, A.dtype.str[1:], A.size, '=')
        if data.size < A.size:
            self.rt('eof_error', f'read! needs {A.size} elements, file has {data.size}')
        A[...] = data.reshape(A.shape, order='F')      # read! fills its argument in place
        return A

    def b_read(self, a):
        if not a:
            self.bad('read_bad_arguments')
        fh = self.io(a[0], 'read')
        if len(a) == 1:
            return self.read(fh, 'u1', None, '=')
        if isinstance(a[1], np.ndarray):
            self.bad('read_bad_type_argument', 'read(io, A::Array) has no method; read! fills an array')
        if not (isinstance(a[1], tuple) and a[1] and a[1][0] == 'T'):
            self.lim('read_form', repr(a[1])[:60])
        code = a[1][1]
        if len(a) == 2:
            data = self.read(fh, code, 1, '=')
            if not data.size:
                self.rt('eof_error', 'read')
            return data[0].item()
        if not self.old():
            self.bad('read_with_dims_removed', 'read(io, T, dims) does not exist in Julia 1.x; use read!')
        dims = self.dims(a[2:], 'read')
        data = self.read(fh, code, int(np.prod(dims)), '=')
        if data.size < int(np.prod(dims)):
            self.rt('eof_error', f'read needs {int(np.prod(dims))} elements, file has {data.size}')
        return data.reshape(dims, order='F')

    def swap(self, name, x):
        if name in ('ltoh', 'htol', 'identity'):
            return x                        # little-endian host
        if isinstance(x, np.ndarray):
            if x.dtype.kind == 'c':
                self.note(f'julia: {name}/bswap on Complex elements (no bswap method for Complex is '
                          f'known; per-component swap assumed)')
            return x.byteswap()
        self.lim('scalar_byte_swap')

    def b_map(self, a):
        if len(a) != 2:
            self.lim('map_arity', str(len(a)))
        f, A = a
        if not isinstance(A, np.ndarray):
            self.lim('map_over', type(A).__name__)
        if isinstance(f, tuple) and f and f[0] == 'B' and f[1] in ('ltoh', 'ntoh', 'htol', 'hton',
                                                                   'bswap', 'identity'):
            return self.swap(f[1], A)
        self.lim('map_function', repr(f))

    b_ltoh = _jl_scalar_only('ltoh')
    b_ntoh = _jl_scalar_only('ntoh')
    b_htol = _jl_scalar_only('htol')
    b_hton = _jl_scalar_only('hton')
    b_bswap = _jl_scalar_only('bswap')

    def b_identity(self, a):
        return a[0]

    def b_reshape(self, a):
        if len(a) < 2 or not isinstance(a[0], np.ndarray):
            self.bad('reshape_bad_arguments')
        dims = self.dims(a[1:], 'reshape')
        if int(np.prod(dims)) != a[0].size:
            self.rt('dimension_mismatch', f'{a[0].size} elements into {dims}')
        return a[0].reshape(-1, order='F').reshape(dims, order='F')

    def b_size(self, a):
        return tuple(int(d) for d in a[0].shape)

    def b_length(self, a):
        return int(np.size(a[0]))


# ---------------------------------------------------------------------------
# IDL / GDL
# ---------------------------------------------------------------------------

_IDL_TYPES = {1: 'u1', 2: 'i2', 3: 'i4', 4: 'f4', 5: 'f8', 6: 'c8', 9: 'c16', 12: 'u2', 13: 'u4',
              14: 'i8', 15: 'u8'}


def _strip_trailing(a):
    shape = list(a.shape)
    while len(shape) > 1 and shape[-1] == 1:
        shape.pop()
    return a.reshape(shape, order='F')


class IdlInterp(Interp):
    lang = family = 'idl'
    origin = 0

    def ev_id(self, node, env):
        name = node[1]
        if name in env:
            return env[name]
        if name == '!null':
            return None
        self.lim('unknown_name', name)

    def ev_list(self, node, env):
        vals = [self.ev(n, env) for n in node[1][0]]
        if not vals:
            self.note('idl: `[]` (== !NULL) requires IDL >= 8.0')
            return None
        if not all(is_scalar(v) for v in vals):
            self.lim('array_concatenation')
        return np.array(vals)

    def ev_bin(self, node, env):
        op = node[1]
        a = self.ev(node[2], env)
        b = self.ev(node[3], env)
        if op == ':':
            return Rng(a, b)
        r = self.arith(op, a, b)
        return int(r) if isinstance(r, (bool, np.bool_)) else r

    def ev_if(self, node, env):
        c = self.ev(node[1], env)
        if isinstance(c, np.ndarray):
            if c.size != 1:
                self.rt('if_condition_not_scalar')
            c = c.reshape(-1)[0].item()
        if isinstance(c, str) or c is None:
            self.lim('if_condition_type')
        true = bool(c & 1) if isinstance(c, int) else bool(c)     # integers: lowest bit decides
        if true:
            return self.ev(node[2], env)
        if node[3] is not None:
            return self.ev(node[3], env)

    def ev_assign(self, node, env):
        _, lhs, rhs, _ = node
        if lhs[0] != 'id':
            self.lim('indexed_assignment')
        if lhs[1].startswith('!'):
            self.lim('system_variable_assignment')
        env[lhs[1]] = self.ev(rhs, env)

    def ev_app(self, node, env):
        _, f, args, br = node
        if f[0] == 'id' and f[1] not in env and br == '(':
            meth = getattr(self, 'b_' + f[1], None)
            if meth is None:
                self.lim('unknown_function', f[1])
            return meth([(kw, self.ev(n, env)) for kw, n in args])
        target = self.ev(f, env)
        if br == '(':
            self.note('idl: array subscripted with parentheses (obsolete syntax)')
        if any(kw for kw, _ in args):
            self.bad('keyword_in_subscript')
        if target is None:
            self.rt('subscript_of_null')
        if not isinstance(target, np.ndarray):
            self.lim('subscript_of_scalar')
        return self.index(target, [self.ev(n, env) for _, n in args], f[1] if f[0] == 'id' else 'value')

    def range_positions(self, r, n):
        a, b = self.range_ends(r)
        if a is ALLV:
            self.lim('open_range')
        if b is ALLV:
            b = n - 1
        if a < 0 or b < 0:
            self.note('idl: negative subscripts count from the end (IDL >= 8.0)')
            a, b = (a + n if a < 0 else a), (b + n if b < 0 else b)
        if a > b:
            self.rt('illegal_subscript_range', f'{a}:{b}')
        return np.arange(a, b + 1, dtype=np.int64)

    def index(self, A, vals, what):
        m = len(vals)
        if m == 0:
            self.bad('empty_subscript')
        if m > 8:
            self.bad('too_many_subscripts')
        if m == 1 and A.ndim > 1:
            B = A.reshape(-1, order='F')
        elif m < A.ndim:
            self.note('idl: fewer subscripts than dimensions; omitted trailing subscripts taken as 0')
            vals = list(vals) + [0] * (A.ndim - m)
            B = A
        else:
            B = A.reshape(list(A.shape) + [1] * (m - A.ndim), order='F')
        subs = []
        for k, (v, d) in enumerate(zip(vals, B.shape)):
            p = self.positions(v, d, f'subscript {k + 1}')
            if isinstance(p, int) and p < 0:
                self.note('idl: negative subscripts count from the end (IDL >= 8.0)')
                p += d
            if isinstance(p, np.ndarray) and not isinstance(v, Rng):
                self.lim('array_subscript')
            subs.append(p)
        res, scal = self.take(B, subs, what)
        if all(scal):
            return res.reshape(-1)[0].item()
        return _strip_trailing(res)

    def b_read_binary(self, a):
        known = ('data_type', 'data_dims', 'endian', 'data_start', 'template')
        pos = [v for kw, v in a if kw is None]
        kws = {}
        for kw, v in a:
            if kw is None:
                continue
            cands = [k for k in known if k == kw] or [k for k in known if k.startswith(kw)]
            if len(cands) != 1 or cands[0] in kws:
                self.bad('read_binary_bad_keyword', kw)
            kws[cands[0]] = v
        if len(pos) != 1:
            self.bad('read_binary_bad_arguments', f'{len(pos)} positional arguments')
        if not isinstance(pos[0], str):
            self.lim('read_binary_from_unit')
        if 'template' in kws:
            self.lim('read_binary_template')
        tcode = self.integer(kws.get('data_type', 1), 'data_type')
        if tcode not in _IDL_TYPES:
            self.bad('read_binary_bad_data_type', f'type code {tcode} is not a numeric IDL type')
        order = '='
        if 'endian' in kws:
            e = kws['endian']
            if not isinstance(e, str) or e.lower() not in ('big', 'little', 'native'):
                self.bad('read_binary_bad_endian', repr(e))
            if e != e.lower():
                self.note('idl: ENDIAN value given in upper/mixed case')
            order = {'big': '>', 'little': '<', 'native': '='}[e.lower()]
        fh = self.load(pos[0], order)
        fh.pos = self.integer(kws.get('data_start', 0), 'data_start')
        code = _IDL_TYPES[tcode]
        if 'data_dims' not in kws:
            return self.read(fh, code, None, order)
        dd = kws['data_dims']
        dims = [self.integer(x, 'data_dims') for x in np.atleast_1d(np.asarray(dd)).reshape(-1)]
        if len(dims) > 8 or any(d < 0 for d in dims):
            self.bad('read_binary_bad_data_dims', repr(dims))
        if is_scalar(dd) and dims == [0]:
            data = self.read(fh, code, 1, order)
            if not data.size:
                self.rt('end_of_file')
            return data[0].item()
        if 0 in dims:
            self.lim('read_binary_zero_extent')
        total = int(np.prod(dims))
        data = self.read(fh, code, total, order)
        if data.size < total:
            self.rt('end_of_file', f'read_binary needs {total} elements, file has {data.size}')
        return _strip_trailing(data.reshape(dims, order='F'))


# ---------------------------------------------------------------------------
# Mathematica
# ---------------------------------------------------------------------------

@dataclass(frozen=True)
class Sym:
    name: str


@dataclass
class Rule:
    lhs: object
    rhs: object


_MMA_TYPES = {'Byte': 'u1', 'Integer8': 'i1', 'Integer16': 'i2', 'Integer32': 'i4', 'Integer64': 'i8',
              'UnsignedInteger8': 'u1', 'UnsignedInteger16': 'u2', 'UnsignedInteger32': 'u4',
              'UnsignedInteger64': 'u8', 'Real32': 'f4', 'Real64': 'f8', 'Complex64': 'c8',
              'Complex128': 'c16'}
_MMA_TYPES_UNMODELLED = ('Integer24', 'Integer128', 'UnsignedInteger24', 'UnsignedInteger128',
                         'Real128', 'Complex256', 'Character8', 'Character16', 'Character32',
                         'TerminatedString')
_MMA_WIDE = {'i': np.int64, 'u': np.uint64, 'f': np.float64, 'c': np.complex128}
_UNSET = ('unset',)


class MathematicaInterp(Interp):
    lang = family = 'mathematica'
    constants = {'True': True, 'False': False, 'Null': None, 'Pi': np.pi}

    def __init__(self, cwd):
        super().__init__(cwd)
        self.env = ChainMap({})

    def ev_id(self, node, env):
        name = node[1]
        if name in env and env[name] is not _UNSET:
            return env[name]
        return self.constants.get(name, Sym(name))

    def ev_list(self, node, env):
        vals = [self.ev(n, env) for n in node[1][0]]
        if not vals:
            return np.empty((0,))
        if all(is_scalar(v) for v in vals):
            return np.array(vals)
        if all(isinstance(v, np.ndarray) for v in vals) and len({v.shape for v in vals}) == 1:
            return np.stack(vals)
        self.lim('non_rectangular_or_symbolic_list')

    def ev_pattern(self, node, env):
        self.lim('pattern_outside_definition')

    def ev_bin(self, node, env):
        op = node[1]
        if op == ';':
            self.ev(node[2], env)
            return self.ev(node[3], env)
        if op == '?':
            self.lim('pattern_test_outside_definition')
        a, b = self.ev(node[2], env), self.ev(node[3], env)
        if op == '->':
            return Rule(a, b)
        if op == ';;':
            return Rng(a, b)
        if isinstance(a, Sym) or isinstance(b, Sym):
            self.rt('symbolic_operand', f'{a!r} {op} {b!r}: an undefined symbol takes part in arithmetic')
        return self.arith(op, a, b)

    def assign_name(self, env, name, v):
        for m in env.maps:
            if name in m:
                m[name] = v
                return
        env.maps[-1][name] = v

    def ev_assign(self, node, env):
        _, lhs, rhs, op = node
        if lhs[0] == 'app' and lhs[3] == '[' and lhs[1][0] == 'id':
            params = [param_of(n) if n[0] in ('pattern', 'bin') else None for _, n in lhs[2]]
            if any(p is None or p[1][0] not in ('pattern', 'bin') or p[1][1] == '::' for p in params):
                self.lim('definition_with_literal_arguments')
            fn = Func(params, [Stmt(rhs, 0, '')], self.env, 'mma', lhs[1][1])
            self.assign_name(env, lhs[1][1], fn)
            return None if op == ':=' else fn
        if lhs[0] != 'id':
            self.lim('assignment_target', lhs[0])
        if op == ':=':
            self.lim('delayed_own_value')
        v = self.ev(rhs, env)
        self.assign_name(env, lhs[1], v)
        return v

    def ev_app(self, node, env):
        _, f, args, br = node
        if br == '[[':
            target = self.ev(f, env)
            return self.part(target, [self.ev(n, env) for _, n in args], f[1] if f[0] == 'id' else 'expr')
        if f[0] != 'id':
            self.lim('compound_head')
        name = f[1]
        if name == 'Module':
            return self.module(args, env)
        if name in env and isinstance(env[name], Func):
            return self.call(env[name], [self.ev(n, env) for _, n in args])
        meth = getattr(self, 'b_' + name, None)
        if meth is None:
            self.lim('unknown_function', name)
        return meth([self.ev(n, env) for _, n in args])

    def module(self, args, env):
        if len(args) != 2 or args[0][1][0] != 'list':
            self.bad('module_bad_arguments')
        local = {}
        for n in args[0][1][1][0]:
            if n[0] == 'id':
                local[n[1]] = _UNSET
            elif n[0] == 'assign' and n[1][0] == 'id':
                local[n[1][1]] = self.ev(n[2], env)
            else:
                self.bad('module_bad_local_variable', repr(n))
        return self.ev(args[1][1], ChainMap(local, *env.maps))

    def call(self, fn, vals):
        if len(vals) != len(fn.params):
            self.rt('no_matching_definition', f'{fn.name} with {len(vals)} arguments stays unevaluated')
        for (name, pat), v in zip(fn.params, vals):
            head = pat[2] if pat[0] == 'pattern' else pat[2][2]
            test = pat[3][1] if pat[0] == 'bin' and pat[3][0] == 'id' else None
            if pat[0] == 'bin' and test is None:
                self.lim('pattern_test')
            isint = isinstance(v, int) and not isinstance(v, bool)
            ok = True
            if head is not None:
                ok = {'Integer': isint, 'Real': isinstance(v, float),
                      'List': isinstance(v, np.ndarray)}.get(head)
            if ok and test is not None:
                ok = {'IntegerQ': isint, 'NumberQ': is_scalar(v), 'NumericQ': is_scalar(v),
                      'ListQ': isinstance(v, np.ndarray)}.get(test)
            if ok is None:
                self.lim('pattern_head_or_test', f'{head or test}')
            if not ok:
                self.rt('no_matching_definition', f'{fn.name}[{v!r}] stays unevaluated')
        local = ChainMap({p[0]: v for p, v in zip(fn.params, vals)}, *self.env.maps)
        return self.ev(fn.body[0].node, local)

    def part(self, x, specs, what):
        if not isinstance(x, np.ndarray):
            self.rt('part_of_atom', f'{what} is not a list')
        if len(specs) > x.ndim:
            self.rt('part_deeper_than_object', f'{len(specs)} part specifications for depth {x.ndim}')
        subs = []
        for s, n in zip(specs, x.shape):
            if isinstance(s, Sym):
                if s.name != 'All':
                    self.rt('symbolic_part_specification', s.name)
                subs.append(ALLV)
            elif isinstance(s, Rng):
                a, b = (n if e is Sym('All') else e for e in (s.a, s.b))
                if isinstance(a, Sym) or isinstance(b, Sym):
                    self.rt('symbolic_part_specification', repr(s))
                a, b = self.range_ends(Rng(a, b))
                a, b = (a + n + 1 if a < 0 else a), (b + n + 1 if b < 0 else b)
                if a < 1 or b > n or a > b + 1:
                    self.rt('cannot_take_positions', f'{a} through {b} in {what} of length {n}')
                if b == 0:
                    self.note('mathematica: Part with Span a;;0 is taken to give {} like Take[list,{1,0}]')
                subs.append(np.arange(a, b + 1, dtype=np.int64))
            else:
                p = self.positions(s, n)
                if isinstance(p, np.ndarray):
                    self.lim('list_part_specification')
                if p == 0:
                    self.lim('part_zero_is_head')
                subs.append(p + n + 1 if p < 0 else p)
        subs += [ALLV] * (x.ndim - len(subs))
        res, scal = self.take(x, subs, what)
        if all(scal):
            return res.reshape(-1)[0].item()
        res = res.reshape([d for d, s in zip(res.shape, scal) if not s])
        return np.empty((0,), res.dtype) if res.size == 0 and res.shape[0] == 0 else res

    # -- builtins -----------------------------------------------------------------
    def b_BinaryReadList(self, a):
        if not a or not isinstance(a[0], str):
            self.bad('binaryreadlist_bad_file', repr(a[:1]))
        pos = [v for v in a[1:] if not isinstance(v, Rule)]
        if any(isinstance(v, Rule) for v in a[1:len(pos) + 1]):
            self.bad('binaryreadlist_option_before_argument')
        typ = pos[0] if pos else 'Byte'
        if isinstance(typ, np.ndarray) or not isinstance(typ, str):
            self.lim('binaryreadlist_type', repr(typ))
        if typ not in _MMA_TYPES:
            if typ in _MMA_TYPES_UNMODELLED:
                self.lim('binaryreadlist_type', typ)
            self.bad('unknown_type', f'{typ!r} is not a BinaryRead type')
        count = self.integer(pos[1], 'BinaryReadList n') if len(pos) > 1 else None
        if len(pos) > 2:
            self.bad('binaryreadlist_too_many_arguments')
        order = '<'
        for r in a[1:]:
            if not isinstance(r, Rule):
                continue
            if r.lhs != Sym('ByteOrdering'):
                self.lim('binaryreadlist_option', repr(r.lhs))
            if isinstance(r.rhs, bool) or r.rhs not in (1, -1):
                self.bad('bad_byte_ordering', f'ByteOrdering -> {r.rhs!r}')
            order = '>' if r.rhs == 1 else '<'
        fh = self.load(a[0], order)
        code = _MMA_TYPES[typ]
        data = self.read(fh, code, count, order)
        if count is None and (len(fh.data) - fh.pos):
            self.note('mathematica: trailing bytes that do not fill an element are ignored')
        return data.astype(_MMA_WIDE[data.dtype.kind])

    def b_ArrayReshape(self, a):
        if len(a) not in (2, 3) or not isinstance(a[0], np.ndarray):
            self.bad('arrayreshape_bad_arguments')
        if len(a) == 3:
            self.lim('arrayreshape_padding')
        if not isinstance(a[1], np.ndarray) or a[1].ndim != 1:
            self.bad('arrayreshape_bad_dims', repr(a[1]))
        dims = [self.integer(x, 'ArrayReshape dims') for x in a[1]]
        if any(d < 0 for d in dims):
            self.bad('arrayreshape_bad_dims', repr(dims))
        flat, total = a[0].reshape(-1), int(np.prod(dims))
        if flat.size != total:
            self.note('mathematica: ArrayReshape pads with 0 / drops surplus elements')
            new = np.zeros(total, flat.dtype)
            new[:min(total, flat.size)] = flat[:total]
            flat = new
        return flat.reshape(dims)

    def b_Length(self, a):
        return int(a[0].shape[0]) if isinstance(a[0], np.ndarray) else 0

    def b_Dimensions(self, a):
        return np.array(a[0].shape if isinstance(a[0], np.ndarray) else (), dtype=np.int64)

    def b_Flatten(self, a):
        if len(a) != 1 or not isinstance(a[0], np.ndarray):
            self.lim('flatten_form')
        return a[0].reshape(-1)

    def b_Transpose(self, a):
        if len(a) != 1 or not isinstance(a[0], np.ndarray) or a[0].ndim < 2:
            self.lim('transpose_form')
        return np.swapaxes(a[0], 0, 1)


# ---------------------------------------------------------------------------
# Maple
# ---------------------------------------------------------------------------

_MAPLE_TYPES = {'integer[1]': 'i1', 'integer[2]': 'i2', 'integer[4]': 'i4', 'integer[8]': 'i8',
                'float[4]': 'f4', 'float[8]': 'f8'}


class MapleInterp(Interp):
    lang = family = 'maple'

    def ev_id(self, node, env):
        name = node[1]
        if name in env:
            return env[name]
        if name in ('true', 'false'):
            return name == 'true'
        return Sym(name)                 # an unassigned name evaluates to itself

    def ev_list(self, node, env):
        return [self.ev(n, env) for n in node[1][0]]

    def ev_bin(self, node, env):
        op = node[1]
        a, b = self.ev(node[2], env), self.ev(node[3], env)
        if op == '..':
            return Rng(a, b)
        if op == '=':
            return ('eq', a, b)
        if op == '::':
            self.lim('type_assertion')
        if isinstance(a, Sym) or isinstance(b, Sym):
            self.rt('symbolic_operand', f'{a!r} {op} {b!r}: an unassigned name takes part in arithmetic')
        return self.arith(op, a, b)

    def ev_func(self, node, env):
        return Func(node[2], node[3], self.env, 'maple')

    def ev_assign(self, node, env):
        _, lhs, rhs, _ = node
        if lhs[0] != 'id':
            self.lim('indexed_assignment')
        v = self.ev(rhs, env)
        env[lhs[1]] = v
        return v

    def ev_app(self, node, env):
        _, f, args, br = node
        target = self.ev(f, env)
        vals = [(kw, self.ev(n, env)) for kw, n in args]
        if isinstance(target, Sym):
            if br == '[':
                if any(kw for kw, _ in vals):
                    self.bad('equation_in_index')
                return Sym(f'{target.name}[{",".join(self.show(v) for _, v in vals)}]')
            meth = {'FileTools[Binary][Read]': self.b_read, 'FileTools[Binary][Close]': self.b_close,
                    'ArrayTools[Reshape]': self.b_reshape}.get(target.name)
            if meth is None:
                self.lim('unknown_function', target.name)
            return meth(vals)
        if any(kw for kw, _ in vals):
            self.bad('equation_in_index_or_call')
        vals = [v for _, v in vals]
        if isinstance(target, Func):
            if br != '(':
                self.rt('procedure_indexed_with_brackets')
            return self.call(target, vals)
        if isinstance(target, list) and br == '[' and len(vals) == 1 and is_scalar(vals[0]):
            k = self.integer(vals[0], 'list index')
            if not 1 <= k <= len(target):
                self.rt('index_out_of_range', f'list index {k}')
            return target[k - 1]
        if isinstance(target, np.ndarray):
            return self.index(target, vals, f[1] if f[0] == 'id' else 'value', br)
        self.lim('application_of', type(target).__name__)

    def show(self, v):
        return v.name if isinstance(v, Sym) else repr(v)

    def call(self, fn, vals):
        if len(vals) != len(fn.params):
            self.rt('wrong_number_of_arguments', f'{len(vals)} for {len(fn.params)}')
        for (name, typ), v in zip(fn.params, vals):
            if typ is None:
                continue
            if typ[0] != 'id' or typ[1] not in ('integer', 'posint', 'nonnegint', 'numeric', 'anything'):
                self.lim('parameter_type', repr(typ))
            isint = isinstance(v, int) and not isinstance(v, bool)
            ok = {'integer': isint, 'posint': isint and v > 0, 'nonnegint': isint and v >= 0,
                  'numeric': is_scalar(v), 'anything': True}[typ[1]]
            if not ok:
                self.rt('invalid_input', f'{name} expects {typ[1]}, got {v!r}')
        local = ChainMap({p[0]: v for p, v in zip(fn.params, vals)}, fn.env)
        val = None
        for s in fn.body:
            val = self.exec(s, local)
        return val

    def range_positions(self, r, n):
        a, b = self.range_ends(r)
        if a is ALLV or b is ALLV:
            self.lim('open_range')
        if a < 0 or b < 0:
            self.lim('negative_range_bound')
        if b < a - 1:
            self.note(f'maple: range {a}..{b} with upper bound below lower-1 taken as empty')
        return np.arange(a, b + 1, dtype=np.int64)

    def index(self, A, vals, what, br):
        m = len(vals)
        if m == 1 and A.ndim > 1 and br == '(':
            self.note('maple: A(k) on a multi-dimensional Array taken as column-major linear indexing')
            B = A.reshape(-1, order='F')
        elif m != A.ndim:
            self.note('maple: number of subscripts differs from the number of dimensions; taken as an error')
            self.rt('wrong_number_of_subscripts', f'{m} subscripts for {A.ndim}-dimensional {what}')
        else:
            B = A
        subs = []
        for k, (v, d) in enumerate(zip(vals, B.shape)):
            if isinstance(v, Sym):
                self.rt('symbolic_subscript', v.name)
            p = self.positions(v, d, f'subscript {k + 1}')
            if isinstance(p, int) and p < 0:
                self.lim('negative_subscript')
            subs.append(p)
        res, scal = self.take(B, subs, what)
        if all(scal):
            return res.reshape(-1)[0].item()
        if any(scal):
            self.note('maple: a scalar subscript next to range subscripts is taken to drop that dimension')
        return res.reshape([d for d, s in zip(res.shape, scal) if not s], order='F')

    # -- builtins ---------------------------------------------------------------
    def b_read(self, vals):
        pos = [v for kw, v in vals if kw is None]
        opts = {kw: v for kw, v in vals if kw}
        if len(pos) < 2 or len(pos) > 3 or not isinstance(pos[0], str):
            if pos and not isinstance(pos[0], str):
                self.lim('read_from_descriptor')
            self.bad('read_bad_arguments', f'{len(pos)} positional arguments')
        typ = pos[1]
        if not isinstance(typ, Sym) or typ.name not in _MAPLE_TYPES:
            self.bad('read_bad_type', f'{self.show(typ)} is not a hardware type')
        count = self.integer(pos[2], 'Read count') if len(pos) == 3 else None
        order = '='
        for k, v in opts.items():
            name = v.name if isinstance(v, Sym) else v
            if k == 'byteorder':
                if name not in ('little', 'big', 'native', 'network'):
                    self.bad('read_bad_byteorder', repr(name))
                order = {'little': '<', 'big': '>', 'native': '=', 'network': '>'}[name]
            elif k == 'output':
                if name not in ('Array', 'list'):
                    self.bad('read_bad_output', repr(name))
                if name == 'list':
                    self.lim('read_output_list')
            else:
                self.bad('read_bad_option', k)
        if pos[0] not in self.files:
            self.files[pos[0]] = self.load(pos[0], order)    # Read opens the file implicitly
        data = self.read(self.files[pos[0]], _MAPLE_TYPES[typ.name], count, order)
        return data.astype(np.int64 if data.dtype.kind == 'i' else np.float64)

    def b_close(self, vals):
        if not vals or any(kw for kw, _ in vals):
            self.bad('close_bad_arguments')
        for _, v in vals:
            if not isinstance(v, str):
                self.lim('close_descriptor')
            if v not in self.files:
                self.note('maple: FileTools[Binary][Close] of a file that is not open taken as harmless')
            self.files.pop(v, None)
        return None

    def b_reshape(self, vals):
        if any(kw for kw, _ in vals):
            self.lim('reshape_option')
        vals = [v for _, v in vals]
        if len(vals) < 2 or not isinstance(vals[0], np.ndarray):
            self.bad('reshape_bad_arguments')
        dims = vals[1] if len(vals) == 2 and isinstance(vals[1], list) else vals[1:]
        if any(isinstance(d, Rng) for d in dims):
            self.lim('reshape_range_bounds')
        dims = [self.integer(d, 'Reshape dims') for d in dims]
        if not dims or any(d < 0 for d in dims):
            self.bad('reshape_bad_dims', repr(dims))
        if int(np.prod(dims)) != vals[0].size:
            self.rt('reshape_size_mismatch', f'{vals[0].size} elements into {dims}')
        return vals[0].reshape(-1, order='F').reshape(dims, order='F')


# ---------------------------------------------------------------------------
# Public API
# ---------------------------------------------------------------------------

_INTERPS = {'R': RInterp, 'matlab': MatlabInterp, 'scilab': ScilabInterp, 'julia': JuliaInterp,
            'julia_ver0': JuliaInterp, 'julia_ver1': JuliaInterp, 'idl': IdlInterp,
            'mathematica': MathematicaInterp, 'maple': MapleInterp}
_EXAMPLE_RE = re.compile(r'example\s+to\s+(?:read|get)\s+(?:the\s+)?(first|second|third)\s+'
                         r'\(\s*k\s*=\s*(-?\d+)\s*\)\s+subarray')


_INTERNAL = (ValueError, TypeError, IndexError, KeyError, AttributeError, OverflowError,
             ZeroDivisionError, RecursionError, NotImplementedError, MemoryError)


def _guarded(fn):
    def wrapper(*args, **kwargs):
        try:
            return fn(*args, **kwargs)
        except _INTERNAL as e:
            raise StubLimitation(f'internal:{type(e).__name__}: {e}') from e
    wrapper.__name__, wrapper.__doc__ = fn.__name__, fn.__doc__
    return wrapper


def _make(language, cwd):
    if language not in _INTERPS:
        raise StubLimitation(f'{language}:no_stub_for_language')
    it = _INTERPS[language](cwd)
    it.lang = language
    return it


def _final(it, v):
    """Value of a variable as an ndarray with the language's own dimensions."""
    fam = it.family
    if isinstance(v, (Sym, Func, str, Rule, FileH, tuple, list, Rng)):
        it.rt('value_is_not_an_array', f'{type(v).__name__} {v!r}'[:80])
    if fam in ('matlab', 'scilab'):
        return it.arr(v)
    if fam == 'R':
        return it.vec(v)
    if fam == 'idl' and isinstance(v, np.ndarray):
        return _strip_trailing(v)
    return it.result_array(v)


def _check_closed(it):
    left = it.open_files()
    if left:
        raise IllFormed(f'{it.lang}:file_left_open: {left}')
    return left


def _lookup(it, name):
    env = it.env
    key = name.lower() if it.family == 'idl' else name
    if key in env and env[key] is not _UNSET:
        return True, env[key]
    return False, None


@_guarded
def run_array_snippet(language, code, cwd, varname='a'):
    """Interpret the snippet of ``Array.readcode(language)``; see module docstring."""
    it = _make(language, cwd)
    stmts, _ = it.parse(code)
    it.run(stmts)
    bound, v = _lookup(it, varname)
    if not bound:
        it.bad('result_variable_unbound', f'the snippet does not bind {varname!r}')
    _check_closed(it)
    res = ArrayResult(language, _final(it, v), it.unverified, [])
    res.paths = list(it.paths)
    return res


def _accessor_call(it, stmt_node):
    """(name, literal k) of the first one-argument call of a user function in a statement."""
    call_br = '[' if it.family == 'mathematica' else '('
    for n in find_nodes(stmt_node, lambda n: n[0] == 'app' and n[3] == call_br and n[1][0] == 'id'
                        and len(n[2]) == 1):
        if isinstance(it.env.get(n[1][1]), Func):
            arg = n[2][0][1]
            return n[1][1], (arg[1] if arg[0] == 'num' else None)
    return None, None


def _native_k(it, k):
    return float(k) if it.family in ('R', 'matlab', 'scilab') else int(k)


def _call_accessor(it, name, k):
    fn = it.env.get(name)
    if not isinstance(fn, Func):
        it.rt('accessor_not_defined', name)
    if it.family == 'R':
        return it.call(fn, [(None, _native_k(it, k))])
    return it.call(fn, [_native_k(it, k)])


@_guarded
def run_ragged_snippet(language, code, cwd, example_var='sa'):
    """Interpret the snippet of ``RaggedArray.readcode(language)``; see module docstring."""
    it = _make(language, cwd)
    stmts, comments = it.parse(code)
    res = RaggedResult(language, None, it.unverified)
    res.example_var = example_var
    ex_line = None
    for line, text in comments:
        m = _EXAMPLE_RE.search(text)
        if m:
            res.example_position, res.example_comment_k, ex_line = m.group(1), int(m.group(2)), line
    if ex_line is None:
        # other wording: any comment that speaks of an example; position word and 'k = N' are read where present
        for line, text in comments:
            if re.search(r'example', text, re.I):
                ex_line = line
                mp = re.search(r'\b(first|second|third)\b', text)
                mk = re.search(r'\bk\s*=\s*(-?\d+)', text)
                res.example_position = mp.group(1) if mp else None
                res.example_comment_k = int(mk.group(1)) if mk else None
    if ex_line is None and stmts:
        ex_line = stmts[-1].line - 1        # no comment at all: the last statement is the example
    pre = [s for s in stmts if ex_line is None or s.line <= ex_line]
    example = [s for s in stmts if ex_line is not None and s.line > ex_line]
    it.run(pre)
    var = example_var.lower() if it.family == 'idl' else example_var
    # drop any earlier binding so that `example_bound` reflects the example statement itself
    for m in (it.env.maps if isinstance(it.env, ChainMap) else [it.env]):
        m.pop(var, None)
    accessor = 'getsubarray'
    idl_if = None
    if it.family == 'idl':
        ifs = [s for s in example if s.node[0] == 'if']
        idl_if = ifs[0] if ifs else None
        for s in example:
            if s.node[0] == 'assign' and s.node[1] == ('id', 'k') and s.node[2][0] == 'num':
                res.example_call_k = s.node[2][1]
    try:
        for s in example:
            if it.family != 'idl' and res.example_call_k is None:
                name, k = _accessor_call(it, s.node)
                if name:
                    accessor, res.example_call_k = name, k
            it.exec(s, it.env)
    except LangRuntimeError as e:
        res.example_error = str(e)
    bound, v = _lookup(it, var)
    res.example_bound = bound
    if bound and res.example_error is None:
        res.example_value = _final(it, v)
    res.files_left_open = _check_closed(it)
    res.paths = list(it.paths)
    res.accessor = accessor if it.family != 'idl' else None

    @_guarded
    def get(k):
        if it.family == 'idl':
            if idl_if is None:
                it.rt('accessor_not_defined', 'no IF statement after the example comment')
            it.env['k'] = int(k)
            it.env.pop(var, None)
            # every example statement after the `k = N` assignment is the "accessor" in IDL (helper variables like
            # starti/endi may be computed before the IF)
            seen_k = False
            for s in example:
                if s.node[0] == 'assign' and s.node[1] == ('id', 'k'):
                    seen_k = True
                    continue
                if seen_k or not any(x.node[0] == 'assign' and x.node[1] == ('id', 'k') for x in example):
                    it.exec(s, it.env)
            if var not in it.env:
                it.rt('example_variable_unbound', var)
            return _final(it, it.env[var])
        return _final(it, _call_accessor(it, accessor, k))
    res._getter = get
    return res
