"""History engine over darr.RaggedArray against a list-of-ndarrays model.
Serves C04 (model), C05 (independent decoder), C08 (README), C13/C11 parts."""
import copy
import json
import os
import pathlib
import numpy as np

from ..core import Engine, import_darr, HarnessError
from .. import data as D
from .. import meta as M
from ..oracles import decode_ragged_dir, DecodeError, snapshot, snap_diff, snap_digest, leaks
from ..readme import check_ragged_readme
from .arrayhist import Viol, Diverged, lenbucket, failing_iterable, Boom, Interrupt

MUTATING = ('append', 'iterappend', 'iterappend_fail', 'truncate', 'delete') + M.META_OPS
SMALLCAP = {'int8': 127, 'uint8': 255, 'int16': 32767}


def _it(rows, **kw):
    d = {'rows': rows, 'trail': 'match', 'layout': 'C', 'form': 'ndarray', 'vseed': 0, 'dtype': 'same', 'gen': 'rand'}
    d.update(kw)
    return d


C04_ALPHABET = [
    {'op': 'append', 'item': _it(2)},
    {'op': 'append', 'item': _it(0)},
    {'op': 'append', 'item': _it(3, form='list', dtype='<i4', gen='nonneg', layout='strided')},
    {'op': 'iterappend', 'as': 'generator', 'items': [_it(1, dtype='>f4', gen='nonneg'), _it(0), _it(2)]},
    {'op': 'iterappend', 'as': 'list', 'items': []},
    {'op': 'truncate', 'index': 0, 'by': 'handle'},
    {'op': 'truncate', 'index': -1, 'by': 'handle'},
    {'op': 'truncate', 'index': 1, 'by': 'path'},
    {'op': 'reopen', 'mode': 'r+'},
    {'op': 'append', 'bad': 'shape', 'item': _it(1, gen='safe')},
    {'op': 'iter', 's': 1, 'e': None, 'st': 2},
]


class RaggedHistory(Engine):
    prop = 'C04'
    oracles = ('model', 'fresh', 'indextype', 'outcome', 'attrs')
    weights = dict(append=22, iterappend=12, truncate=14, mode=4, reopen=10, append_bad=6,
                   truncate_bad=5, getbad=4, iter=8, meta=0, iterappend_fail=4)
    quick_runs = 3000
    thorough_runs = 80000
    batch = 30
    reopen_modes = ('r', 'r+', 'r+', 'r+')
    create_r_p = 0.1
    create_empty_p = 0.12
    many_p = 0.12     # quota of runs biased to 5..9 subarrays

    def gen_item(self, rng, other_p=0.3):
        rows = rng.choice([0, 0, 1, 2, 3, 4, 6])
        s = {'rows': rows, 'trail': 'match', 'layout': rng.choice(D.LAYOUTS),
             'form': rng.choice(['ndarray', 'ndarray', 'list']), 'vseed': rng.getrandbits(32)}
        if rng.random() < other_p:
            s['dtype'] = D.pick_dtype(rng)
            s['gen'] = 'nonneg'
        else:
            s['dtype'] = 'same'
            s['gen'] = rng.choice(['rand', 'rand', 'special', 'safe'])
            if s['form'] != 'ndarray':
                s['gen'] = 'nonneg'
        return s

    def gen_create(self, rng, many=False):
        dtype = D.pick_dtype(rng)
        r = rng.random()
        atom = [] if r < 0.5 else [rng.choice([1, 2, 3])] if r < 0.85 else [rng.choice([1, 2]), rng.choice([1, 2, 3])]
        op = {'op': 'create', 'atom': atom, 'dtype': dtype, 'indextype': rng.choice(D.INDEXTYPES),
              'mode': 'r' if rng.random() < self.create_r_p else 'r+'}
        if rng.random() < self.create_empty_p:   # costs ~0.6 s: Darr allocates its 80 MB fill buffer
            op['how'] = 'create_raggedarray'
        else:
            op['how'] = 'asraggedarray'
            n = rng.choice([1, 1, 2, 3, 4]) if not many else rng.choice([4, 5, 6, 7])
            op['items'] = [dict(self.gen_item(rng, other_p=0.0), dtype=dtype) for _ in range(n)]
            op['dtypearg'] = rng.choice([None, None, dtype, D.pick_dtype(rng)])
            op['as'] = rng.choice(['list', 'generator'])
            if op['dtypearg'] is None and any(it['form'] != 'ndarray' for it in op['items']):
                op['dtypearg'] = dtype     # a list does not carry its dtype
            if op['dtypearg'] not in (None, dtype):
                op['items'] = [dict(it, gen='nonneg', form='ndarray') for it in op['items']]
        if self.weights.get('meta', 0) and rng.random() < 0.4:
            op['metadata'] = M.gen_dict(rng, n=rng.choice([0, 1, 2]))
        return op

    def gen_op(self, rng):
        w = self.weights
        kinds = [k for k in w if w[k] > 0]
        k = rng.choices(kinds, [w[x] for x in kinds])[0]
        if k == 'append':
            return {'op': 'append', 'item': self.gen_item(rng)}
        if k == 'iterappend':
            return {'op': 'iterappend', 'items': [self.gen_item(rng) for _ in range(rng.choice([0, 1, 2, 3, 4]))],
                    'as': rng.choice(['list', 'generator'])}
        if k == 'iterappend_fail':
            n = rng.choice([1, 2, 3])
            return {'op': 'iterappend_fail', 'items': [self.gen_item(rng) for _ in range(n)], 'pos': rng.randint(0, n),
                    'how': rng.choice(['raise', 'raise_base', 'badshape', 'unconvertible'])}
        if k == 'append_bad':
            return {'op': 'append', 'item': dict(self.gen_item(rng), rows=rng.choice([1, 2]), form='ndarray'),
                    'bad': rng.choice(['shape', 'rank+', 'rank-', 'unconvertible', 'overflow', 'shape_empty', 'rank+_empty'])}
        if k == 'truncate':
            return {'op': 'truncate', 'index': rng.choice([0, 0, 1, 2, 3, 5, -1, -1, -2, -3, 7, 30]),
                    'by': rng.choice(['handle', 'handle', 'path', 'strpath'])}
        if k == 'truncate_bad':
            return {'op': 'truncate', 'index': rng.choice([0, 1, -1]), 'by': 'handle',
                    'itype': rng.choice(['float', 'none', 'str'])}
        if k == 'getbad':
            return {'op': 'getbad', 'what': rng.choice(['float', 'str', 'slice', 'none', 'list', 'npfloat'])}
        if k == 'iter':
            return {'op': 'iter', 's': rng.randint(0, 6), 'e': rng.choice([None, None, 0, 1, 2, 3, 5, 8]),
                    'st': rng.choice([1, 1, 2, 3]), 'general': rng.random() < 0.4,
                    'gs': rng.randint(-8, 8), 'ge': rng.randint(-9, 9), 'gst': rng.choice([-3, -2, -1, -1, 1, 2])}
        if k == 'mode':
            return {'op': 'mode', 'to': rng.choice(['r', 'r+', 'r+'])}
        if k == 'reopen':
            return {'op': 'reopen', 'mode': rng.choice(self.reopen_modes)}
        if k == 'meta':
            return M.gen_meta_op(rng, with_bytes='meta' in self.oracles)
        if k == 'delete':
            return {'op': 'delete'}
        if k == 'copycheck':
            return {'op': 'copycheck'}
        if k == 'metamode':
            return {'op': 'metamode', 'meta': rng.choice(['r', 'r+']), 'handle': rng.choice(['r', 'r', 'r+'])}
        if k == 'recreate':
            c = self.gen_create(rng)
            c['op'] = 'recreate'
            return c
        raise HarnessError(k)

    ENUM_LEN = 4
    enum_alphabet = None
    enum_starts = [
        # (create_raggedarray costs 0.6 s per call - Darr allocates its 80 MB fill buffer - so the enumerated
        # part starts from one empty subarray instead; 'truncate 0' in the alphabet reaches the empty ragged array)
        {'op': 'create', 'how': 'asraggedarray', 'atom': [], 'dtype': '<f8', 'indextype': 'int64', 'mode': 'r+', 'dtypearg': None,
         'as': 'list', 'items': [{'rows': 0, 'trail': 'match', 'layout': 'C', 'form': 'ndarray', 'vseed': 1, 'dtype': '<f8', 'gen': 'rand'}]},
        {'op': 'create', 'how': 'asraggedarray', 'atom': [2], 'dtype': '>i2', 'indextype': 'uint8', 'mode': 'r+', 'dtypearg': None,
         'as': 'generator', 'items': [
             {'rows': 2, 'trail': 'match', 'layout': 'C', 'form': 'ndarray', 'vseed': 1, 'dtype': '>i2', 'gen': 'rand'},
             {'rows': 0, 'trail': 'match', 'layout': 'C', 'form': 'ndarray', 'vseed': 2, 'dtype': '>i2', 'gen': 'rand'}]},
    ]

    def enum_total(self):
        if not self.enum_alphabet:
            return 0
        k = len(self.enum_alphabet)
        return len(self.enum_starts) * sum(k ** n for n in range(1, self.ENUM_LEN + 1))

    def enum_scenario(self, i):
        from .arrayhist import copy_json
        k = len(self.enum_alphabet)
        per = sum(k ** n for n in range(1, self.ENUM_LEN + 1))
        start = copy_json(self.enum_starts[i // per])
        j = i % per
        n = 1
        while j >= k ** n:
            j -= k ** n
            n += 1
        seq = []
        for _ in range(n):
            seq.append(copy_json(self.enum_alphabet[j % k]))
            j //= k
        for t, op in enumerate(seq):
            if 'item' in op:
                op['item']['vseed'] = 1000 + t
            for d in op.get('items', []):
                d['vseed'] = 2000 + t
        return {'engine': type(self).__name__, 'prop': self.prop, 'ops': [start] + seq, 'enumerated': True}

    def gen(self, rng, i, tier):
        if tier == 'thorough' and i < self.enum_total():
            return self.enum_scenario(i)
        many = rng.random() < self.many_p
        ops = [self.gen_create(rng, many)]
        w0 = dict(self.weights)
        for k in list(w0):
            if w0[k] and rng.random() < 0.2:
                w0[k] = 0
        if not any(w0.values()):
            w0 = dict(self.weights)
        saved, self.weights = self.weights, w0
        try:
            r = rng.random()
            if r < 0.08:      # truncation that removes only zero-length subarrays
                ops += [{'op': 'mode', 'to': 'r+'},
                        {'op': 'append', 'item': dict(self.gen_item(rng), rows=2, dtype='same', gen='safe')},
                        {'op': 'append', 'item': dict(self.gen_item(rng), rows=0, dtype='same', gen='safe')},
                        {'op': 'truncate', 'index': -1, 'by': 'handle'}]
            elif r < 0.16:    # to zero, then append again
                ops += [{'op': 'mode', 'to': 'r+'}, {'op': 'truncate', 'index': 0, 'by': 'handle'},
                        {'op': 'append', 'item': self.gen_item(rng)}]
            n = rng.randint(3, 22 if rng.random() < 0.3 else 9)
            if many:
                ops.append({'op': 'mode', 'to': 'r+'})
                for _ in range(rng.randint(3, 8)):
                    ops.append(rng.choice([{'op': 'append', 'item': self.gen_item(rng)},
                                           {'op': 'append', 'item': self.gen_item(rng)},
                                           {'op': 'truncate', 'index': -1, 'by': 'handle'},
                                           {'op': 'reopen', 'mode': 'r+'}]))
            for _ in range(n):
                ops.append(self.gen_op(rng))
        finally:
            self.weights = saved
        return {'engine': type(self).__name__, 'prop': self.prop, 'ops': ops}

    def shrink_keep_prefix(self, scenario):
        return 1

    def simplify(self, sc):
        ops = sc['ops']
        for i, op in enumerate(ops):
            def cand(newop):
                c = copy.deepcopy(sc)
                c['ops'][i] = newop
                return c
            if op['op'] == 'create':
                if op['dtype'] not in ('<f8', '<i4'):
                    o = dict(op, dtype='<f8')
                    if 'items' in o:
                        o['items'] = [dict(it, dtype='<f8') for it in o['items']]
                        o['dtypearg'] = None
                    yield cand(o)
                if op['atom']:
                    yield cand(dict(op, atom=op['atom'][:-1]))
                if op['indextype'] != 'int64':
                    yield cand(dict(op, indextype='int64'))
                if op.get('metadata'):
                    yield cand({k: v for k, v in op.items() if k != 'metadata'})
                if op.get('items'):
                    its = op['items']
                    for j in range(len(its)):
                        if len(its) > 1:
                            yield cand(dict(op, items=its[:j] + its[j + 1:]))
                    for j, d in enumerate(its):
                        if d.get('layout') != 'C' or d.get('form') != 'ndarray' or d.get('gen') != 'arange':
                            yield cand(dict(op, items=its[:j] + [dict(d, layout='C', form='ndarray', gen='arange')] + its[j + 1:]))
                        if d['rows'] > 1:
                            yield cand(dict(op, items=its[:j] + [dict(d, rows=1)] + its[j + 1:]))
                    if op.get('dtypearg') is not None:
                        yield cand(dict(op, dtypearg=None))
                    if op.get('as') != 'list':
                        yield cand(dict(op, **{'as': 'list'}))
                    if len(its) == 1 and its[0]['rows'] == 0:
                        yield cand({k: v for k, v in dict(op, how='create_raggedarray').items()
                                    if k not in ('items', 'dtypearg', 'as')})
            if op['op'] == 'append' and 'item' in op:
                d = op['item']
                if d.get('layout') != 'C' or d.get('dtype') != 'same' or d.get('form') != 'ndarray' or d.get('gen') != 'arange':
                    yield cand(dict(op, item=dict(d, layout='C', dtype='same', form='ndarray', gen='arange')))
                if d['rows'] > 1:
                    yield cand(dict(op, item=dict(d, rows=1)))
            if op['op'] == 'iterappend':
                its = op['items']
                for j in range(len(its)):
                    yield cand(dict(op, items=its[:j] + its[j + 1:]))
                for j, d in enumerate(its):
                    if d.get('layout') != 'C' or d.get('dtype') != 'same' or d.get('form') != 'ndarray' or d.get('gen') != 'arange':
                        yield cand(dict(op, items=its[:j] + [dict(d, layout='C', dtype='same', form='ndarray', gen='arange')] + its[j + 1:]))
                    if d['rows'] > 1:
                        yield cand(dict(op, items=its[:j] + [dict(d, rows=1)] + its[j + 1:]))
                if op.get('as') != 'list':
                    yield cand(dict(op, **{'as': 'list'}))
                if len(its) == 1:
                    yield cand({'op': 'append', 'item': its[0]})
            if op['op'] == 'truncate' and op.get('by') != 'handle':
                yield cand(dict(op, by='handle'))

    def run(self, scenario, sandbox, emit):
        darr = import_darr()
        st = self.state_cls(self, darr, sandbox, emit, set(scenario.get('oracles', self.oracles)))
        viol = None
        for idx, op in enumerate(scenario['ops']):
            st.idx = idx
            try:
                st.step(op)
            except Viol as v:
                viol = {'oracle': v.oracle, 'signature': v.signature, 'op_index': idx,
                        'op': op['op'], 'detail': v.detail}
                emit({'step': idx, 'op': op['op'], 'violation': v.oracle + ':' + v.signature})
                break
            except Diverged as dv:
                st.probe('history_ended_outcome_not_this_propertys_subject')
                emit({'step': idx, 'op': op['op'], 'ended': str(dv)})
                try:
                    st.disk_oracles(use_model=False)      # what the call left on disk is still this check's subject
                except Viol as v:
                    viol = {'oracle': v.oracle, 'signature': v.signature, 'op_index': idx,
                            'op': op['op'], 'detail': v.detail}
                    emit({'step': idx, 'op': op['op'], 'violation': v.oracle + ':' + v.signature})
                break
        return {'violation': viol, 'stats': st.stats()}

    def features(self, sc, v):
        f = []
        ops = sc['ops']
        c = ops[0]
        if c.get('how') == 'create_raggedarray':
            f.append('created_by_create_raggedarray')
        if c.get('indextype') != 'int64':
            f.append('indextype_not_int64')
        i = v.get('op_index')
        if i is not None and i < len(ops):
            op = ops[i]
            f.append('op=' + op['op'])
        return f

    def rule(self):
        return ('ragged op lists drawn from the run seed (create by create_raggedarray/asraggedarray, then 3-22 ops: '
                'append, iterappend, truncate, mode, reopen, bad appends/indices, iter_arrays); every subarray index in '
                '[-len-1, len] is read after every step on the live and on a fresh handle; non-trivial = at least one '
                'mutating op completed; distinct = distinct scenario digests')

    def nontrivial(self, scenario, stats):
        return stats.get('mutations_ok', 0) >= 1


class _RState:
    def __init__(self, eng, darr, sandbox, emit, oracles):
        self.eng, self.darr, self.sb, self.emit, self.oracles = eng, darr, sandbox, emit, oracles
        self.path = os.path.join(sandbox, 'r.darr')
        self.scratch = os.path.join(sandbox, '_scratch')
        self.h = None
        self.L = None
        self.atom = None
        self.dtype = None
        self.indextype = None
        self.mode = None
        self.meta = {}
        self.idx = 0
        self.transitions = set()
        self.probes = {}
        self.steps = 0
        self.mutations_ok = 0

    def probe(self, n):
        self.probes[n] = self.probes.get(n, 0) + 1

    def has(self, o):
        return o in self.oracles

    def unexpected(self, oracle, signature, detail=''):
        """see arrayhist._State.unexpected"""
        if self.has('outcome') and (self.has('reject') or not oracle.startswith('reject.')):
            return Viol(oracle, signature, detail)
        return Diverged(f'{oracle}:{signature}')

    def stats(self):
        return {'steps': self.steps, 'mutations_ok': self.mutations_ok, 'probes': self.probes,
                'faults': {}, 'transitions': sorted(self.transitions)}

    def nvalues(self):
        return sum(a.shape[0] for a in self.L)

    def abstract(self):
        if self.L is None:
            return 'none'
        nz = sum(1 for a in self.L if a.shape[0] == 0)
        return (f'atom{len(self.atom)}|{lenbucket(len(self.L))}|z{min(nz, 2)}|{self.mode}|'
                f'{"meta" if self.meta else "nometa"}|{self.dtype.kind}{D.dtstr(self.dtype)[0]}|{self.indextype}')

    def mdigest(self):
        import hashlib
        h = hashlib.sha256()
        for a in self.L:
            h.update(D.arr_digest(a).encode())
        return h.hexdigest()[:12]

    def log(self, op, outcome, extra=None):
        self.steps += 1
        self.transitions.add(f'{self.abstract()}|{op}|{outcome}')
        e = {'step': self.idx, 'op': op, 'out': outcome, 'm': self.mdigest() if self.L is not None else None,
             'dir': snap_digest(snapshot(self.path))}
        if extra:
            e.update(extra)
        self.emit(e)

    def call(self, f):
        try:
            f()
            return None
        except Exception as e:  # noqa
            return e.with_traceback(None)
        except Interrupt as e:
            return e.with_traceback(None)

    # ---- ops
    def step(self, op):
        k = op['op']
        if k == 'create':
            return self.do_create(op)
        if self.h is None:
            self.log(k, 'skipped_no_array')
            return
        if k == 'recreate':
            if op['how'] == 'create_raggedarray' and self.steps % 4:
                op = dict(op, how='asraggedarray', dtypearg=None, **{'as': 'list'},
                          items=[{'rows': 1, 'trail': 'match', 'layout': 'C', 'form': 'ndarray', 'vseed': 3,
                                  'dtype': op['dtype'], 'gen': 'rand'}])
            self.probe('recreated_with_overwrite')
            return self.do_create(op, overwrite=True)
        if k == 'delete' and self.has('ro') and self.mode != 'r':
            self.h.accessmode = 'r'
            self.mode = 'r'
        if k in MUTATING and self.mode == 'r':
            if self.has('ro'):
                return self.do_readonly(op)
            self.log(k, 'skipped_readonly')
            return
        getattr(self, 'do_' + (k if not k.startswith('meta_') else 'meta'))(op)

    def do_create(self, op, overwrite=False):
        darr = self.darr
        md = M.build_dict(op['metadata']) if op.get('metadata') is not None else None
        atom = tuple(op['atom'])
        dtype = np.dtype(op['dtype'])
        if op['how'] == 'create_raggedarray':
            h = darr.create_raggedarray(self.path, atom=atom, dtype=dtype, metadata=md,
                                        accessmode=op['mode'], indextype=op['indextype'], overwrite=overwrite)
            L = []
            mdtype = dtype
            self.probe('created_empty')
        else:
            objs = []
            for it in op['items']:
                obj, _ = D.build(it, trail=atom, target_dtype=dtype)
                objs.append(obj)
            dtarg = None if op.get('dtypearg') is None else np.dtype(op['dtypearg'])
            with np.errstate(all='ignore'):
                first = np.asarray(objs[0], dtype=dtarg)
                mdtype = first.dtype
                L = [np.array(np.asarray(o, dtype=mdtype), copy=True) for o in objs]
            it = objs if op.get('as', 'list') == 'list' else (o for o in objs)
            h = darr.asraggedarray(self.path, it, dtype=dtarg, metadata=md, accessmode=op['mode'],
                                   indextype=op['indextype'], overwrite=overwrite)
        self.h, self.L, self.atom, self.dtype = h, L, atom, np.dtype(mdtype)
        self.indextype, self.mode = op['indextype'], op['mode']
        self.meta = M.json_normalise(md) if md else {}
        self.log(op['op'], 'ok', {'how': op['how']})
        self.after_step(op)

    def model_item(self, obj):
        try:
            with np.errstate(all='ignore'):
                a = np.asarray(obj, dtype=self.dtype)
        except Exception:
            return None
        if a.ndim != len(self.atom) + 1 or tuple(a.shape[1:]) != self.atom:
            return None
        return np.array(a, copy=True)

    def bad_item(self, op):
        d = dict(op['item'])
        bad = op['bad']
        atom = list(self.atom)
        if bad == 'shape_empty':
            return np.zeros([0] + atom[:-1] + [atom[-1] + 1], dtype=self.dtype) if atom else np.zeros([3, 0], dtype=self.dtype)
        if bad == 'rank+_empty':
            return np.zeros([2] + atom + [0], dtype=self.dtype)
        if bad == 'shape':
            d['trail'] = (atom[:-1] + [atom[-1] + 1]) if atom else [2]
        elif bad == 'rank+':
            d['trail'] = atom + [2]
        elif bad == 'rank-':
            if not atom:
                return 5.0           # a scalar: len() fails / rank 0
            d['trail'] = atom[:-1]
            if d['trail'] == atom:
                d['trail'] = atom + [1]
        else:
            return ['x', 'y']
        obj, _ = D.build(d, trail=None, target_dtype=self.dtype)
        return obj

    def capacity_ok(self, extra):
        cap = SMALLCAP.get(self.indextype)
        return cap is None or self.nvalues() + extra <= cap

    def do_append(self, op):
        overflow = False
        if op.get('bad') == 'overflow':
            cap = SMALLCAP.get(self.indextype)
            if cap is None:
                obj = np.zeros((1,) + self.atom, dtype=self.dtype)     # nothing can overflow: an ordinary append
            else:
                # one value more than the index type can address: must be refused, nothing may change
                obj = np.zeros((cap - self.nvalues() + 1,) + self.atom, dtype=self.dtype)
                overflow = True
                self.probe('append_beyond_index_type_range')
        elif 'bad' in op:
            obj = self.bad_item(op)
        else:
            obj, _ = D.build(op['item'], trail=self.atom, target_dtype=self.dtype)
        exp = None if overflow else self.model_item(obj)
        if exp is not None and not self.capacity_ok(exp.shape[0]):
            self.log('append', 'skipped_index_capacity')
            return
        pre = self.state_snapshot() if (exp is None and self.has('reject')) else None
        exc = self.call(lambda: self.h.append(obj))
        if exp is None:
            if exc is None:
                raise self.unexpected('reject.append', 'no_exception', f'bad={op.get("bad")}')
            if pre is not None:
                d = snap_diff(pre, self.state_snapshot())
                if d:
                    raise Viol('reject.append', 'state_changed', d)
            self.log('append', 'rejected')
        else:
            if exc is not None:
                raise self.unexpected('model.append', f'raises:{type(exc).__name__}', str(exc)[:300])
            if exp.shape[0] == 0:
                self.probe('zero_length_subarray')
            if not self.L:
                self.probe('append_to_empty')
            self.L.append(exp)
            self.mutations_ok += 1
            if len(self.L) > 6:
                self.probe('ragged_len_gt_6')
            self.log('append', 'ok')
        self.after_step(op)

    def do_iterappend(self, op):
        objs, exps = [], []
        for d in op['items']:
            obj, _ = D.build(d, trail=self.atom, target_dtype=self.dtype)
            e = self.model_item(obj)
            if e is None:
                self.probe('dropped_unconvertible_item')
                continue
            objs.append(obj)
            exps.append(e)
        if not self.capacity_ok(sum(e.shape[0] for e in exps)):
            self.log('iterappend', 'skipped_index_capacity')
            return
        it = objs if op.get('as', 'list') == 'list' else (o for o in objs)
        exc = self.call(lambda: self.h.iterappend(it))
        if exc is not None:
            raise self.unexpected('model.iterappend', f'raises:{type(exc).__name__}', f'n={len(objs)} {str(exc)[:200]}')
        if not objs:
            self.probe('iterappend_empty_iterable')
        if any(e.shape[0] == 0 for e in exps):
            self.probe('zero_length_subarray')
        self.L.extend(exps)
        self.mutations_ok += 1
        if len(self.L) > 6:
            self.probe('ragged_len_gt_6')
        self.log('iterappend', 'ok', {'n': len(objs)})
        self.after_step(op)

    def do_iterappend_fail(self, op):
        objs, exps = [], []
        for d in op['items']:
            obj, _ = D.build(d, trail=self.atom, target_dtype=self.dtype)
            e = self.model_item(obj)
            if e is None:
                obj, _ = D.build(dict(d, form='ndarray'), trail=self.atom, target_dtype=self.dtype)
                e = self.model_item(obj)
            objs.append(obj)
            exps.append(e)
        if not self.capacity_ok(sum(e.shape[0] for e in exps)):
            self.log('iterappend_fail', 'skipped_index_capacity')
            return
        pos = min(op['pos'], len(objs))
        raise_at = None
        atom = list(self.atom)
        if op['how'] in ('raise', 'raise_base'):
            raise_at = pos
        elif op['how'] == 'badshape':
            tr = (atom[:-1] + [atom[-1] + 1]) if atom else [2]
            objs = objs[:pos] + [np.zeros([1] + tr, dtype=self.dtype)] + objs[pos:]
        else:
            objs = objs[:pos] + [['x', 'y'] if not atom else object()] + objs[pos:]
        exc = self.call(lambda: self.h.iterappend(failing_iterable(objs, 'generator', raise_at,
                                                                  Interrupt if op['how'] == 'raise_base' else Boom)))
        if exc is None:
            raise self.unexpected('model.iterappend_fail', 'no_exception', f'how={op["how"]} pos={pos}')
        self.L.extend(exps[:pos])
        self.probe('iterappend_failed_after_%d_items' % min(pos, 2))
        if pos:
            self.mutations_ok += 1
        if len(self.L) > 6:
            self.probe('ragged_len_gt_6')
        self.log('iterappend_fail', 'raised', {'pos': pos, 'how': op['how']})
        self.after_step(op)

    def do_truncate(self, op):
        i = op['index']
        it = op.get('itype')
        index = {'float': float(i), 'npint64': np.int64(i), 'none': None, 'str': str(i)}.get(it, int(i)) \
            if it else int(i)
        ok = False
        if it is None:
            newlen = len(self.L[:index])
            ok = 0 <= newlen < len(self.L)
        by = op.get('by', 'handle')
        target = self.h if by == 'handle' else (self.path if by == 'strpath' else pathlib.Path(self.path))
        pre = self.state_snapshot() if (not ok and self.has('reject')) else None
        exc = self.call(lambda: self.darr.truncate_raggedarray(target, index))
        if not ok:
            if exc is None and it in (None, 'none', 'npint64', 'npint32') and not self.has('reject'):
                # a truncation that keeps everything in list-slicing sense (L[:index] == L) and is carried out as a
                # no-op agrees with the model; that it be refused is not stated for ragged arrays
                self.probe('non_shortening_truncate_accepted_as_noop')
                self.log('truncate', 'noop', {'it': it})
                self.after_step(op)
                return
            if exc is None:
                raise self.unexpected('reject.truncate', 'no_exception', f'index={index!r} len={len(self.L)}')
            if pre is not None:
                d = snap_diff(pre, self.state_snapshot())
                if d:
                    raise Viol('reject.truncate', 'state_changed', d)
            self.log('truncate', 'rejected', {'it': it})
        else:
            removed = self.L[index:]
            if exc is not None:
                tag = ':removed_all_zero_length' if all(a.shape[0] == 0 for a in removed) else ''
                raise self.unexpected('model.truncate', f'raises:{type(exc).__name__}{tag}',
                           f'index={index} len={len(self.L)} {str(exc)[:200]}')
            if removed and all(a.shape[0] == 0 for a in removed):
                self.probe('truncate_removes_only_zero_length')
            self.L = self.L[:index]
            if not self.L:
                self.probe('truncate_to_zero')
            self.mutations_ok += 1
            if by != 'handle':
                self.h = self.darr.RaggedArray(self.path, accessmode=self.mode)
                self.probe('truncate_by_path')
            self.log('truncate', 'ok')
        self.after_step(op)

    def do_getbad(self, op):
        w = op['what']
        item = {'float': 1.0, 'str': '0', 'slice': slice(0, 1), 'none': None, 'list': [0], 'npfloat': np.float64(0)}[w]
        try:
            self.h[item]
            raise self.unexpected('model.getitem', f'noninteger_accepted:{w}', '')
        except TypeError:
            pass
        except (Viol, Diverged):
            raise
        except Exception as e:
            raise self.unexpected('model.getitem', f'noninteger_wrong_class:{w}:{type(e).__name__}', str(e)[:200])
        self.log('getbad', w)

    def do_iter(self, op):
        n = len(self.L)
        s = op['s'] % (n + 1)
        e = None if op['e'] is None else min(op['e'], n)
        stp = op['st']
        if op.get('general') and n:
            # any start/end/step (negative steps and negative indices too) whose indices all exist
            gs, ge, gst = op['gs'], op['ge'], op['gst']
            gs = max(-n, min(n - 1, gs))
            rng_ = range(gs, ge, gst)
            while len(rng_) and not all(-n <= i < n for i in rng_):
                ge = ge - 1 if gst > 0 else ge + 1
                rng_ = range(gs, ge, gst)
            s, e, stp = gs, ge, gst
            self.probe('iter_arrays_general_range')
            if gst < 0:
                self.probe('iter_arrays_negative_step')
        # "iter_arrays for any start/end/step equals a list-of-ndarrays model": for negative values the statement can
        # be read as indices start, start+step, ... (each taken like ra[i]) or as list slicing L[start:end:step];
        # where the two readings differ either is accepted
        readings = [[self.L[i] for i in range(s, n if e is None else e, stp)], self.L[slice(s, e, stp)]]
        try:
            got = list(self.h.iter_arrays(startindex=s, endindex=e, stepsize=stp))
        except Exception as ex:
            raise self.unexpected('model.iter_arrays', f'raises:{type(ex).__name__}', f's={s} e={e} st={stp} n={n} {str(ex)[:200]}')
        why_not = None
        for exp in readings:
            if len(got) != len(exp):
                why_not = why_not or ('count', f'{len(got)} != {len(exp)} s={s} e={e} st={stp}')
                continue
            bad = None
            for a, b in zip(got, exp):
                ok, why = D.arr_equal(a, b)
                if not ok:
                    bad = (why.split(' ')[0], why)
                    break
            if bad is None:
                why_not = None
                break
            why_not = why_not or bad
        if why_not:
            raise self.unexpected('model.iter_arrays', why_not[0], why_not[1])
        if len(readings[0]) != len(readings[1]):
            self.probe('iter_arrays_range_and_slice_readings_differ')
        lk = leaks(self.path)
        if lk and self.has('leak'):
            raise Viol('leak', lk[0][0], str(lk[:4]))
        self.log('iter', 'ok', {'n': len(got)})

    def do_mode(self, op):
        self.h.accessmode = op['to']
        self.mode = op['to']
        self.log('mode', op['to'])
        self.after_step(op)

    def do_reopen(self, op):
        self.h = None
        if op['mode'] == 'default':
            self.h = self.darr.RaggedArray(self.path)
            self.mode = 'r'
            self.probe('r_by_default_open')
        else:
            self.h = self.darr.RaggedArray(self.path, accessmode=op['mode'])
            self.mode = op['mode']
        self.probe('restart')
        self.log('reopen', self.mode)
        self.after_step(op)

    def do_meta(self, op):
        pre = snapshot(self.path)
        out, problem = M.apply_meta_op(op, self.h.metadata, self.meta)
        if problem and (self.has('meta') or (self.has('outcome') and 'raises' in problem[1])):
            raise Viol(*problem)
        if problem:
            # exception classes and refusals of metadata calls are C13's clauses; the model cannot follow
            raise Diverged(f'{problem[0]}:{problem[1]}')
        if out in ('rejected', 'keyerror', 'default'):
            d = M.state_diff(pre, snapshot(self.path))
            if d and self.has('meta'):
                raise Viol('meta.reject', 'state_changed', f'{op["op"]}:{out}:{d}')
        if out == 'ok':
            self.mutations_ok += 1
        self.log(op['op'], out)
        self.after_step(op)

    def do_metamode(self, op):
        self.h.metadata.accessmode = op['meta']
        self.h.accessmode = op['handle']        # the handle's assignment decides for everything
        self.mode = op['handle']
        self.probe('metadata_mode_set_directly')
        self.log('metamode', f"{op['meta']}>{op['handle']}")
        self.after_step(op)

    def do_copycheck(self, op):
        import shutil
        p2 = os.path.join(self.sb, 'copy.darr')
        shutil.rmtree(p2, ignore_errors=True)
        exc = self.call(lambda: self.h.copy(p2))
        if exc is not None:
            raise self.unexpected('model.copy', f'raises:{type(exc).__name__}', str(exc)[:200])
        if self.has('readme'):
            r = check_ragged_readme(p2, self.scratch, model_lens=[a.shape[0] for a in self.L])
            if r:
                raise Viol(r[0] + '_copy', r[1], r[2])
        if self.has('decoder'):
            try:
                subs, v, i, top = decode_ragged_dir(p2)
            except DecodeError as e:
                raise Viol('decoder.copy', str(e).split(':')[0], str(e))
            srcapi = self.darr.RaggedArray(self.path)
            src = [np.array(srcapi[k]) for k in range(len(srcapi))]     # what the Darr API reports for the source
            if len(subs) != len(src) or any(not D.arr_equal(a, b)[0] for a, b in zip(subs, src)):
                raise Viol('decoder.copy', 'contents', '')
        shutil.rmtree(p2, ignore_errors=True)
        self.probe('copy_checked')
        self.log('copycheck', 'ok')

    def do_delete(self, op):
        exc = self.call(lambda: self.darr.delete_raggedarray(self.h))
        if exc is not None:
            raise self.unexpected('model.delete', f'raises:{type(exc).__name__}', str(exc)[:300])
        if os.path.lexists(self.path):
            raise self.unexpected('model.delete', 'path_remains', '')
        self.mutations_ok += 1
        self.probe('deleted')
        self.h = None
        self.L = None
        self.steps += 1
        self.emit({'step': self.idx, 'op': 'delete', 'out': 'ok'})

    def fire(self, op):
        k = op['op']
        if k == 'append':
            obj = self.bad_item(op) if 'bad' in op else D.build(op['item'], trail=self.atom, target_dtype=self.dtype)[0]
            exp = self.model_item(obj)
            return self.call(lambda: self.h.append(obj)), not (exp is not None and exp.shape[0] == 0)
        if k in ('iterappend', 'iterappend_fail'):
            objs = [D.build(d, trail=self.atom, target_dtype=self.dtype)[0] for d in op['items']]
            exps = [self.model_item(o) for o in objs]
            eff = True if k == 'iterappend_fail' else any(e is None or e.shape[0] > 0 for e in exps)
            it = objs if op.get('as', 'list') == 'list' else (o for o in objs)
            return self.call(lambda: self.h.iterappend(it)), eff
        if k == 'truncate':
            return self.call(lambda: self.darr.truncate_raggedarray(self.h, int(op['index']))), True
        if k == 'delete':
            return self.call(lambda: self.darr.delete_raggedarray(self.h)), True
        md = self.h.metadata
        if k == 'meta_set':
            return self.call(lambda: md.__setitem__(op['key'], M.build_value(op['value']))), True
        if k == 'meta_update':
            d = M.build_dict(op['d'])
            return self.call(lambda: md.update(d)), bool(d)
        if k == 'meta_pop':
            if op.get('default') is None:
                return self.call(lambda: md.pop(op['key'])), True
            return self.call(lambda: md.pop(op['key'], M.build_value(op['default']))), op['key'] in self.meta
        if k == 'meta_popitem':
            return self.call(lambda: md.popitem()), True
        if k == 'meta_del':
            return self.call(lambda: md.__delitem__(op['key'])), True
        raise HarnessError(k)

    def do_readonly(self, op):
        k = op['op']
        if k in ('append', 'iterappend') and not self.capacity_ok(24):
            self.log(k, 'skipped_index_capacity')
            return
        pre = snapshot(self.path)
        exc, must = self.fire(op)
        d = snap_diff(pre, snapshot(self.path))
        empty = ':no_values' if self.nvalues() == 0 else ''
        if d:
            raise Viol('ro.changed', k + empty, d)
        if must and exc is None:
            raise Viol('ro.no_exception', k + empty, '')
        self.probe('ro_fired:' + k)
        if self.nvalues() == 0:
            self.probe('ro_fired_on_ragged_without_values')
        self.log(k, 'ro_raised' if exc is not None else 'ro_noop')
        self.h.accessmode = 'r+'
        self.mode = 'r+'
        if k == 'truncate' and op.get('by', 'handle') != 'handle':
            op = dict(op, by='handle')
        # "after switching the handle to 'r+' the same operations succeed": judged for the operations that had to be
        # refused in 'r'; whether any other call is accepted is C03's/C04's subject
        if must:
            self.oracles.add('outcome')
        try:
            getattr(self, 'do_' + (k if not k.startswith('meta_') else 'meta'))(op)
        finally:
            self.oracles.discard('outcome')
        if self.h is not None and op.get('back', True):
            self.h.accessmode = 'r'
            self.mode = 'r'
            self.probe('r_by_assignment')

    # ---- observation
    def state_snapshot(self):
        out = {}
        for sub in ('values', 'indices'):
            p = os.path.join(self.path, sub)
            try:
                with open(os.path.join(p, 'arrayvalues.bin'), 'rb') as f:
                    out[sub + '/bin'] = f.read()
                with open(os.path.join(p, 'arraydescription.json')) as f:
                    d = json.load(f)
                out[sub + '/descr'] = tuple((k, str(d.get(k))) for k in ('numtype', 'byteorder', 'shape', 'arrayorder'))
            except Exception as e:
                out[sub] = ('unreadable', type(e).__name__)
        try:
            with open(os.path.join(self.path, 'arraydescription.json')) as f:
                d = json.load(f)
            out['top'] = tuple((k, str(d.get(k))) for k in ('len', 'size', 'atom', 'numtype', 'darrobject'))
        except Exception as e:
            out['top'] = ('unreadable', type(e).__name__)
        mp = os.path.join(self.path, 'metadata.json')
        if os.path.exists(mp):
            with open(mp, 'rb') as f:
                out['meta'] = f.read()
        return out

    def observe(self, h, who):
        L = self.L
        n = len(L)
        attrs = self.has('attrs')      # narrays/atom/size and the IndexError clause are C04's; elsewhere only the subarrays
        try:
            obs = (len(h), h.narrays, tuple(h.atom), D.dtstr(h.dtype), h.size) if attrs else (len(h),)
        except Exception as e:
            raise Viol(f'{who}.attrs', f'raises:{type(e).__name__}', str(e)[:300])
        exp = (n, n, self.atom, D.dtstr(self.dtype), self.nvalues() * int(np.prod(self.atom, dtype=np.int64))) if attrs else (n,)
        if obs != exp:
            names = ('len', 'narrays', 'atom', 'dtype', 'size')
            bad = [nm for nm, a, b in zip(names, obs, exp) if a != b]
            raise Viol(f'{who}.attrs', 'mismatch:' + ','.join(bad), f'{obs} != {exp}')
        for k in (range(-n - 1, n + 1) if attrs else range(-n, n)):
            valid = -n <= k < n
            kk = k if (k % 3) else np.int64(k)      # Python and NumPy integers
            try:
                got = h[kk]
            except IndexError:
                if valid:
                    raise Viol(f'{who}.getitem', 'indexerror_for_valid', f'k={k} n={n}')
                continue
            except Exception as e:
                raise Viol(f'{who}.getitem', f'raises:{type(e).__name__}', f'k={k} n={n} {str(e)[:200]}')
            if not valid:
                raise Viol(f'{who}.getitem', 'no_indexerror_out_of_range', f'k={k} n={n}')
            if not isinstance(got, np.ndarray):
                raise Viol(f'{who}.getitem', f'type:{type(got).__name__}', '')
            ok, why = D.arr_equal(got, L[k])
            if not ok:
                z = ':zero_length' if L[k].shape[0] == 0 else ''
                raise Viol(f'{who}.getitem', why.split(' ')[0] + z, f'k={k} n={n} {why}')

    def disk_oracles(self, use_model=True):
        """the oracles that read the directory only (decoder, README); use_model=False after the history left the model"""
        if self.has('decoder'):
            try:
                subs, v, i, top = decode_ragged_dir(self.path)
            except DecodeError as e:
                raise Viol('decoder', str(e).split(':')[0], str(e))
            # the reader that uses only the files obtains what the Darr API reports (fresh handle); agreement of both
            # with the reference model is C04's subject and judged only where the model is an oracle of the check
            try:
                fr = self.darr.RaggedArray(self.path)
                api = [np.array(fr[k]) for k in range(len(fr))]
            except Exception as e:
                raise Viol('decoder.api_open', f'raises:{type(e).__name__}', str(e)[:300])
            if len(subs) != len(api):
                raise Viol('decoder.vs_api', 'count', f'{len(subs)} != {len(api)}')
            for k, (a, b) in enumerate(zip(subs, api)):
                ok, why = D.arr_equal(a, b)
                if not ok:
                    raise Viol('decoder.vs_api', why.split(' ')[0], f'k={k} {why}')
            same = len(subs) == len(self.L) and all(D.arr_equal(a, b)[0] for a, b in zip(subs, self.L))
            if not same and (use_model and self.has('model')):
                raise Viol('decoder.contents', 'differs_from_model', f'{len(subs)} vs {len(self.L)} subarrays')
            if not same and use_model:
                self.probe('decoder_and_api_agree_but_model_differs')
            if i.dtype.name != self.indextype and (use_model and self.has('indextype')):
                raise Viol('decoder.indextype', 'not_the_requested_one', f'{i.dtype.name}')
        if self.has('readme'):
            r = check_ragged_readme(self.path, self.scratch, model_lens=[])
            if r:
                raise Viol(*r)

    def after_step(self, op):
        if self.h is None:
            return
        if self.has('model'):
            self.observe(self.h, 'model')
        if self.has('fresh'):
            try:
                fresh = self.darr.RaggedArray(self.path)
            except Exception as e:
                raise Viol('fresh.open', f'raises:{type(e).__name__}', str(e)[:300])
            if hasattr(fresh, 'open_arrays'):
                with fresh.open_arrays():    # same reads, files kept open: much cheaper
                    self.observe(fresh, 'fresh')
            else:
                self.observe(fresh, 'fresh')
        if self.has('indextype'):
            try:
                with open(os.path.join(self.path, 'indices', 'arraydescription.json')) as f:
                    nt = json.load(f)['numtype']
            except Exception as e:
                raise Viol('indextype', f'unreadable:{type(e).__name__}', '')
            if nt != self.indextype:
                raise Viol('indextype', 'not_the_requested_one', f'{nt} != {self.indextype}')
        self.disk_oracles()
        if self.has('metacontent'):
            # "with identical metadata" (C15): the content only, through the live and a fresh handle
            r = M.check_meta(self.h.metadata, self.meta, os.path.join(self.path, 'metadata.json'), 'live', content_only=True)
            if r:
                raise Viol(*r)
            try:
                fm = self.darr.RaggedArray(self.path).metadata
            except Exception as e:
                raise Viol('fresh.open', f'raises:{type(e).__name__}', str(e)[:300])
            r = M.check_meta(fm, self.meta, os.path.join(self.path, 'metadata.json'), 'fresh', content_only=True)
            if r:
                raise Viol(*r)
        if self.has('meta'):
            mp = os.path.join(self.path, 'metadata.json')
            r = M.check_meta(self.h.metadata, self.meta, mp, 'live')
            if r:
                raise Viol(*r)
            try:
                fm = self.darr.RaggedArray(self.path).metadata
            except Exception as e:
                raise Viol('fresh.open', f'raises:{type(e).__name__}', str(e)[:300])
            r = M.check_meta(fm, self.meta, mp, 'fresh')
            if r:
                raise Viol(*r)
        if self.has('leak'):
            lk = leaks(self.path)
            if lk:
                raise Viol('leak', lk[0][0], str(lk[:4]))


RaggedHistory.state_cls = _RState
