"""History engine over darr.Array: seeded op lists (append, iterappend,
setitem, truncate, mode switch, reopen, metadata ops, overwrite re-creation)
executed against the real library and a NumPy reference model, with a
restart ("reopen") as one more operation.  Serves C02, C03, C08, C11, C13."""
import os
import numpy as np

from ..core import Engine, import_darr, HarnessError
from .. import data as D
from .. import meta as M
from ..oracles import (decode_array_dir, DecodeError, snapshot, snap_diff, snap_digest, leaks)
from ..readme import check_array_readme


def copy_json(x):
    import json
    return json.loads(json.dumps(x))


C03_ALPHABET = [
    {'op': 'append', 'data': {'rows': 1, 'trail': 'match', 'layout': 'C', 'form': 'ndarray', 'dtype': 'same', 'gen': 'rand', 'vseed': 0}},
    {'op': 'append', 'data': {'rows': 2, 'trail': 'match', 'layout': 'strided', 'form': 'list', 'dtype': '<i4', 'gen': 'nonneg', 'vseed': 0}},
    {'op': 'append', 'data': {'rows': 0, 'trail': 'match', 'layout': 'C', 'form': 'ndarray', 'dtype': 'same', 'gen': 'rand', 'vseed': 0}},
    {'op': 'iterappend', 'as': 'generator', 'chunks': [
        {'rows': 1, 'trail': 'match', 'layout': 'C', 'form': 'ndarray', 'dtype': '>f4', 'gen': 'nonneg', 'vseed': 0},
        {'rows': 2, 'trail': 'match', 'layout': 'T', 'form': 'ndarray', 'dtype': 'same', 'gen': 'rand', 'vseed': 0}]},
    {'op': 'iterappend', 'as': 'list', 'chunks': []},
    {'op': 'setitem', 'index': {'k': 'slice', 'a': 0, 'b': 2, 's': None}, 'value': {'k': 'scalar', 'vseed': 5, 'dtype': 'same'}},
    {'op': 'truncate', 'index': 0, 'by': 'handle'},
    {'op': 'truncate', 'index': -1, 'by': 'handle'},
    {'op': 'truncate', 'index': 2, 'by': 'path'},
    {'op': 'reopen', 'mode': 'r+'},
    {'op': 'append', 'bad': 'shape', 'data': {'rows': 1, 'trail': 'match', 'layout': 'C', 'form': 'ndarray', 'dtype': 'same', 'gen': 'safe', 'vseed': 0}},
    {'op': 'truncate', 'index': 1, 'itype': 'float', 'by': 'handle'},
]


def lenbucket(n):
    return '0' if n == 0 else '1' if n == 1 else '2-5' if n <= 5 else '6' if n == 6 else '7+'


class Viol(Exception):
    def __init__(self, oracle, signature, detail=''):
        self.oracle, self.signature, self.detail = oracle, signature, detail


class Diverged(Exception):
    """a call left the reference model (raised where the model accepts, or the reverse) in a check whose
    property does not speak about that outcome: the history ends there, without a verdict"""


MUTATING = ('append', 'iterappend', 'iterappend_fail', 'setitem', 'truncate', 'recreate', 'delete') + M.META_OPS


class Boom(RuntimeError):
    pass


class Interrupt(BaseException):
    """stands for KeyboardInterrupt and friends: not a subclass of Exception"""


def failing_iterable(objs, how, raise_at=None, exc=Boom):
    """list/generator over objs; raises exc before yielding item raise_at"""
    if raise_at is None and how == 'list':
        return list(objs)

    def g():
        for j, o in enumerate(objs):
            if raise_at is not None and j == raise_at:
                raise exc('iterable failed (injected)')
            yield o
        if raise_at is not None and raise_at >= len(objs):
            raise exc('iterable failed (injected)')
    return g()


class ArrayHistory(Engine):
    """oracles: subset of {'model','fresh','prefix','reject','decoder','readme','meta','ro','leak'}"""
    prop = 'C03'
    oracles = ('model', 'fresh', 'prefix', 'reject', 'outcome', 'attrs')
    weights = dict(append=20, iterappend=12, setitem=12, truncate=14, mode=5, reopen=10,
                   append_bad=6, truncate_bad=6, meta=0, recreate=0, iterappend_fail=4, iterbreak=3)
    minops, maxops = 3, 25
    quick_runs = 4000
    thorough_runs = 120000
    batch = 40
    reopen_modes = ('r', 'r+', 'r+', 'r+')
    create_r_p = 0.15

    # ------------------------------------------------------------------ gen
    def gen_create(self, rng):
        dtype = D.pick_dtype(rng)
        ndim = rng.choice([1, 1, 1, 2, 2, 3])
        trail = [rng.choice([1, 2, 3, 4]) for _ in range(ndim - 1)]
        rows = rng.choice([0, 0, 1, 2, 3, 5, 8, 13])
        op = {'op': 'create', 'how': 'asarray',
              'data': {'gen': 'rand', 'rows': rows, 'trail': trail, 'dtype': dtype,
                       'layout': rng.choice(D.LAYOUTS), 'form': 'ndarray', 'vseed': rng.getrandbits(32)},
              'mode': 'r' if rng.random() < self.create_r_p else 'r+',
              'chunklen': rng.choice([None, 1, 2, 5])}
        if rng.random() < 0.25:
            op = {'op': 'create', 'how': 'create_array', 'shape': [rows] + trail, 'dtype': dtype,
                  'fill': rng.choice([None, 0, 1, 7]), 'mode': 'r+', 'chunklen': rng.choice([1, 2, 3, 64])}
        if self.weights.get('meta', 0) and rng.random() < 0.4:
            op['metadata'] = M.gen_dict(rng, n=rng.choice([0, 1, 2]))
        return op

    def gen_data(self, rng, rows=None, other_dtype_p=0.35):
        rows = rng.choice([0, 1, 1, 2, 3, 5]) if rows is None else rows
        s = {'rows': rows, 'trail': 'match', 'layout': rng.choice(D.LAYOUTS),
             'form': rng.choice(['ndarray', 'ndarray', 'ndarray', 'list', 'tuple']),
             'vseed': rng.getrandbits(32)}
        if rng.random() < other_dtype_p:
            s['dtype'] = D.pick_dtype(rng)
            s['gen'] = 'nonneg'
        else:
            s['dtype'] = 'same'
            s['gen'] = rng.choice(['rand', 'rand', 'special', 'safe'])
            if s['form'] != 'ndarray':
                s['gen'] = 'nonneg'
        return s

    def gen_index(self, rng):
        r = rng.random()
        if r < 0.3:
            return {'k': 'int', 'i': rng.randint(-3, 14)}
        if r < 0.8:
            return {'k': 'slice', 'a': rng.choice([None, 0, 1, 2, -2, 5]), 'b': rng.choice([None, 1, 3, -1, 9]),
                    's': rng.choice([None, None, 1, 2, -1])}
        if r < 0.9:
            return {'k': 'all'}
        return {'k': 'rowcol', 'i': rng.randint(-2, 6), 'j': rng.randint(0, 3)}

    def gen_op(self, rng):
        w = self.weights
        kinds = [k for k in w if w[k] > 0]
        k = rng.choices(kinds, [w[x] for x in kinds])[0]
        if k == 'append':
            if rng.random() < 0.12:
                return {'op': 'append', 'data': {'form': rng.choice(['scalar', 'npscalar']), 'dtype': 'same',
                                                 'gen': 'nonneg', 'vseed': rng.getrandbits(32)}}
            return {'op': 'append', 'data': self.gen_data(rng)}
        if k == 'iterappend':
            n = rng.choice([0, 1, 2, 2, 3, 4])
            return {'op': 'iterappend', 'chunks': [self.gen_data(rng) for _ in range(n)],
                    'as': rng.choice(['list', 'generator', 'tuple'])}
        if k == 'iterappend_fail':
            n = rng.choice([1, 2, 3])
            return {'op': 'iterappend_fail', 'chunks': [self.gen_data(rng) for _ in range(n)], 'pos': rng.randint(0, n),
                    'how': rng.choice(['raise', 'raise_base', 'badshape', 'unconvertible'])}
        if k == 'append_bad':
            return {'op': 'append', 'data': dict(self.gen_data(rng, rows=rng.choice([1, 2])), form='ndarray'),
                    'bad': rng.choice(['shape', 'rank+', 'rank-', 'unconvertible', 'shape_empty', 'rank+_empty'])}
        if k == 'setitem':
            return {'op': 'setitem', 'index': self.gen_index(rng),
                    'value': {'k': rng.choice(['scalar', 'scalar', 'row', 'match', 'wrongshape']),
                              'vseed': rng.getrandbits(32), 'dtype': rng.choice(['same', D.pick_dtype(rng)])}}
        if k == 'truncate':
            return {'op': 'truncate', 'index': rng.choice([0, 0, 1, 2, 3, 5, -1, -1, -2, -4, 8, 40]),
                    'by': rng.choice(['handle', 'handle', 'path', 'strpath'])}
        if k == 'truncate_bad':
            return {'op': 'truncate', 'index': rng.choice([1, 0, -1, 2]),
                    # NumPy integers are not generated: whether they count as 'an int' is not for the check to decide
                    'itype': rng.choice(['float', 'none', 'str', 'list']),
                    'by': 'handle'}
        if k == 'mode':
            return {'op': 'mode', 'to': rng.choice(['r', 'r+', 'r+'])}
        if k == 'reopen':
            return {'op': 'reopen', 'mode': rng.choice(self.reopen_modes)}
        if k == 'meta':
            return M.gen_meta_op(rng, with_bytes='meta' in self.oracles)
        if k == 'recreate':
            c = self.gen_create(rng)
            c['op'] = 'recreate'
            return c
        if k == 'delete':
            return {'op': 'delete'}
        if k == 'iterbreak':
            return {'op': 'iterbreak', 'chunklen': rng.choice([1, 2, 3]), 'take': rng.choice([0, 1, 1, 2]),
                    'how': rng.choice(['break', 'close', 'abandon'])}
        if k == 'metamode':
            return {'op': 'metamode', 'meta': rng.choice(['r', 'r+']), 'handle': rng.choice(['r', 'r', 'r+'])}
        if k == 'ctx':
            return {'op': 'ctx', 'do': rng.choice(['enter', 'enter', 'exit'])}
        if k == 'copycheck':
            return {'op': 'copycheck', 'dtype': rng.choice([None, None, D.pick_dtype(rng)]), 'chunklen': rng.choice([None, 1, 3])}
        raise HarnessError(k)

    # ---- bounded-exhaustive part of the thorough tier: every op sequence up to
    # length ENUM_LEN over a compact alphabet, from two start states
    ENUM_LEN = 4
    enum_alphabet = None      # set per property in the registry

    def enum_total(self):
        if not self.enum_alphabet:
            return 0
        k = len(self.enum_alphabet)
        return len(self.enum_starts) * sum(k ** n for n in range(1, self.ENUM_LEN + 1))

    def enum_scenario(self, i):
        k = len(self.enum_alphabet)
        per = sum(k ** n for n in range(1, self.ENUM_LEN + 1))
        start = copy_json(self.enum_starts[i // per])
        j = i % per
        n = 1
        while j >= k ** n:
            j -= k ** n
            n += 1
        seq = []
        for _ in range(n):
            seq.append(copy_json(self.enum_alphabet[j % k]))
            j //= k
        for t, op in enumerate(seq):      # distinct, reproducible values per position
            for key in ('data',):
                if key in op:
                    op[key]['vseed'] = 1000 + t
            for d in op.get('chunks', []):
                d['vseed'] = 2000 + t
        return {'engine': type(self).__name__, 'prop': self.prop, 'ops': [start] + seq, 'enumerated': True}

    enum_starts = [
        {'op': 'create', 'how': 'asarray', 'mode': 'r+', 'chunklen': None,
         'data': {'gen': 'rand', 'rows': 0, 'trail': [], 'dtype': '<f8', 'layout': 'C', 'form': 'ndarray', 'vseed': 1}},
        {'op': 'create', 'how': 'asarray', 'mode': 'r+', 'chunklen': 2,
         'data': {'gen': 'rand', 'rows': 3, 'trail': [2], 'dtype': '>i2', 'layout': 'F', 'form': 'ndarray', 'vseed': 2}},
    ]

    def gen(self, rng, i, tier):
        if tier == 'thorough' and i < self.enum_total():
            return self.enum_scenario(i)
        n = rng.randint(self.minops, self.maxops if rng.random() < 0.3 else 10)
        ops = [self.gen_create(rng)]
        # swarm: per run, disable a random subset of op kinds
        w0 = dict(self.weights)
        for k in list(w0):
            if w0[k] and rng.random() < 0.2:
                w0[k] = 0
        if not any(w0.values()):
            w0 = dict(self.weights)
        saved, self.weights = self.weights, w0
        try:
            # up-weighted sub-histories
            r = rng.random()
            if r < 0.10 and self.weights.get('truncate') is not None:
                ops.append({'op': 'mode', 'to': 'r+'})
                ops.append({'op': 'truncate', 'index': 0, 'by': 'handle'})
                ops.append({'op': 'append', 'data': self.gen_data(rng)})
            elif r < 0.18:
                ops.append({'op': 'mode', 'to': 'r+'})
                ops.append({'op': 'iterappend', 'chunks': [self.gen_data(rng) for _ in range(3)], 'as': 'generator'})
            for _ in range(n):
                ops.append(self.gen_op(rng))
        finally:
            self.weights = saved
        return {'engine': type(self).__name__, 'prop': self.prop, 'ops': ops}

    def shrink_keep_prefix(self, scenario):
        return 1

    def simplify(self, sc):
        """argument simplification candidates"""
        import copy
        ops = sc['ops']
        for i, op in enumerate(ops):
            def cand(newop):
                c = copy.deepcopy(sc)
                c['ops'][i] = newop
                return c
            if op['op'] in ('create', 'recreate'):
                if op.get('how') == 'asarray':
                    d = op['data']
                    for key, val in (('layout', 'C'), ('gen', 'arange')):
                        if d.get(key) != val:
                            yield cand(dict(op, data=dict(d, **{key: val})))
                    if d['dtype'] not in ('<f8', '<i4'):
                        yield cand(dict(op, data=dict(d, dtype='<f8')))
                        yield cand(dict(op, data=dict(d, dtype='<i4')))
                    if d['trail']:
                        yield cand(dict(op, data=dict(d, trail=d['trail'][:-1])))
                    if d['rows'] > 0:
                        yield cand(dict(op, data=dict(d, rows=d['rows'] // 2)))
                    if op.get('chunklen') is not None:
                        yield cand(dict(op, chunklen=None))
                else:
                    if op['dtype'] not in ('<f8', '<i4'):
                        yield cand(dict(op, dtype='<f8'))
                    if len(op['shape']) > 1:
                        yield cand(dict(op, shape=op['shape'][:-1]))
                    if op['shape'][0] > 0:
                        yield cand(dict(op, shape=[op['shape'][0] // 2] + op['shape'][1:]))
                if op.get('metadata'):
                    yield cand({k: v for k, v in op.items() if k != 'metadata'})
            if op['op'] == 'append' and 'data' in op and 'rows' in op['data']:
                d = op['data']
                if d.get('layout') != 'C':
                    yield cand(dict(op, data=dict(d, layout='C')))
                if d.get('dtype') != 'same':
                    yield cand(dict(op, data=dict(d, dtype='same')))
                if d.get('form') != 'ndarray':
                    yield cand(dict(op, data=dict(d, form='ndarray')))
                if d['rows'] > 1:
                    yield cand(dict(op, data=dict(d, rows=1)))
                if d.get('gen') != 'arange':
                    yield cand(dict(op, data=dict(d, gen='arange')))
            if op['op'] == 'iterappend':
                ch = op['chunks']
                for j in range(len(ch)):
                    yield cand(dict(op, chunks=ch[:j] + ch[j + 1:]))
                for j, d in enumerate(ch):
                    if d.get('layout') != 'C' or d.get('dtype') != 'same' or d.get('form') != 'ndarray':
                        yield cand(dict(op, chunks=ch[:j] + [dict(d, layout='C', dtype='same', form='ndarray')] + ch[j + 1:]))
                    if d['rows'] > 1:
                        yield cand(dict(op, chunks=ch[:j] + [dict(d, rows=1)] + ch[j + 1:]))
                if op.get('as') != 'list':
                    yield cand(dict(op, **{'as': 'list'}))
            if op['op'] == 'truncate' and op.get('by') != 'handle':
                yield cand(dict(op, by='handle'))

    # ------------------------------------------------------------------ run
    def run(self, scenario, sandbox, emit):
        darr = import_darr()
        st = self.state_cls(self, darr, sandbox, emit, set(scenario.get('oracles', self.oracles)))
        viol = None
        try:
            for idx, op in enumerate(scenario['ops']):
                st.idx = idx
                try:
                    st.step(op)
                except Viol as v:
                    viol = {'oracle': v.oracle, 'signature': v.signature, 'op_index': idx,
                            'op': op['op'], 'detail': v.detail}
                    emit({'step': idx, 'op': op['op'], 'violation': v.oracle + ':' + v.signature})
                    break
                except Diverged as dv:
                    st.probe('history_ended_outcome_not_this_propertys_subject')
                    emit({'step': idx, 'op': op['op'], 'ended': str(dv)})
                    try:
                        st.close_ctxs()
                        st.disk_oracles(use_model=False)      # what the call left on disk is still this check's subject
                    except Viol as v:
                        viol = {'oracle': v.oracle, 'signature': v.signature, 'op_index': idx,
                                'op': op['op'], 'detail': v.detail}
                        emit({'step': idx, 'op': op['op'], 'violation': v.oracle + ':' + v.signature})
                    break
        finally:
            st.close()
        return {'violation': viol, 'stats': st.stats()}

    def rule(self):
        return ('op lists drawn from the run seed (create, then 3-25 ops of the engine alphabet with a per-run '
                'random subset of op kinds disabled); a run is non-trivial if at least one mutating op completed '
                'and at least one later observation through a fresh handle was made; distinct = distinct scenario digests')

    def nontrivial(self, scenario, stats):
        return stats.get('mutations_ok', 0) >= 1


class _State:
    def __init__(self, eng, darr, sandbox, emit, oracles):
        self.eng, self.darr, self.sb, self.emit, self.oracles = eng, darr, sandbox, emit, oracles
        self.path = os.path.join(sandbox, 'a.darr')
        self.scratch = os.path.join(sandbox, '_scratch')
        self.h = None
        self.model = None
        self.mode = None
        self.meta = {}
        self.idx = 0
        self.transitions = set()
        self.probes = {}
        self.faults = {}
        self.steps = 0
        self.mutations_ok = 0
        self.gens = []
        self.cells = set()
        self.ctxs = []

    # -- helpers
    def probe(self, name):
        self.probes[name] = self.probes.get(name, 0) + 1

    def stats(self):
        return {'steps': self.steps, 'mutations_ok': self.mutations_ok, 'probes': self.probes,
                'faults': self.faults, 'transitions': sorted(self.transitions),
                'extra': {'dtype_cells_created': sorted(self.cells)}}

    def close_ctxs(self):
        while self.ctxs:
            self.ctxs.pop().__exit__(None, None, None)

    def close(self):
        try:
            self.close_ctxs()
        except Exception:
            pass
        self.h = None

    def abstract(self):
        if self.model is None:
            return 'none'
        m = self.model
        return f'{m.ndim}d|{lenbucket(m.shape[0])}|{self.mode}|{"meta" if self.meta else "nometa"}|{m.dtype.kind}{D.dtstr(m.dtype)[0]}'

    def log(self, op, outcome, extra=None):
        self.steps += 1
        self.transitions.add(f'{self.abstract()}|{op}|{outcome}')
        e = {'step': self.idx, 'op': op, 'out': outcome,
             'm': D.arr_digest(self.model) if self.model is not None else None,
             'dir': snap_digest(snapshot(self.path))}
        if extra:
            e.update(extra)
        self.emit(e)

    def has(self, o):
        return o in self.oracles

    def unexpected(self, oracle, signature, detail=''):
        """the real call's outcome (raised / did not raise) differs from the reference model's: a verdict only in
        the checks whose property states that outcome ('outcome' oracle: C03, C11), otherwise the end of the history"""
        if self.has('outcome') and (self.has('reject') or not oracle.startswith('reject.')):
            return Viol(oracle, signature, detail)
        return Diverged(f'{oracle}:{signature}')

    # -- ops
    def step(self, op):
        k = op['op']
        if k == 'create':
            return self.do_create(op, first=True)
        if self.h is None:
            self.log(k, 'skipped_no_array')
            return
        if self.ctxs and k in ('recreate', 'truncate', 'delete', 'reopen', 'copycheck', 'mode', 'metamode',
                               'append', 'iterappend', 'iterappend_fail', 'iterbreak'):
            # only element access is performed inside open_array() contexts: the docstring offers contexts for
            # 'multiple read or write operations'; appending inside one is not covered by any property (and on
            # the pinned tree gives stale reads until the context ends)
            self.close_ctxs()
        if k == 'recreate':
            return self.do_create(op, first=False)
        if k == 'delete' and self.has('ro') and self.mode != 'r':
            self.h.accessmode = 'r'
            self.mode = 'r'
        if k in MUTATING and self.mode == 'r':
            if self.has('ro'):
                return self.do_readonly(op)
            self.log(k, 'skipped_readonly')
            return
        getattr(self, 'do_' + (k if not k.startswith('meta_') else 'meta'))(op)

    def make_create_args(self, op):
        md = M.build_dict(op['metadata']) if op.get('metadata') is not None else None
        return md

    def do_create(self, op, first):
        darr = self.darr
        md = self.make_create_args(op)
        kw = {}
        if not first:
            kw['overwrite'] = True
        if op['how'] == 'asarray':
            obj, ref = D.build(op['data'])
            h = darr.asarray(self.path, obj, accessmode=op['mode'], metadata=md,
                             chunklen=op.get('chunklen'), **kw)
            model = np.array(ref, copy=True, order='C')
        else:
            dtype = np.dtype(op['dtype'])
            h = darr.create_array(self.path, shape=tuple(op['shape']), dtype=dtype, fill=op.get('fill'),
                                  accessmode=op['mode'], chunklen=op.get('chunklen'), metadata=md, **kw)
            model = np.full(tuple(op['shape']), 0 if op.get('fill') is None else op['fill'], dtype=dtype)
        self.h, self.model, self.mode = h, model, op['mode']
        self.cells.add(D.dtstr(model.dtype))
        self.meta = M.json_normalise(md) if md else {}
        if model.shape[0] == 0:
            self.probe('created_empty')
        self.mutations_ok += 0 if first else 1
        self.log(op['op'], 'ok')
        self.after_step(op)

    def resolve_bad(self, op):
        """object for a rejected append"""
        m = self.model
        bad = op['bad']
        d = dict(op['data'])
        if bad == 'shape_empty':      # no elements, but still an incompatible trailing shape
            tr = list(m.shape[1:])
            return (np.zeros([0] + tr[:-1] + [tr[-1] + 1], dtype=m.dtype) if tr else np.zeros([3, 0], dtype=m.dtype)), None
        if bad == 'rank+_empty':
            return np.zeros([2] + list(m.shape[1:]) + [0], dtype=m.dtype), None
        if bad == 'shape':
            tr = list(m.shape[1:])
            if tr:
                tr[-1] += 1
            else:
                tr = [2]
            d['trail'] = tr
        elif bad == 'rank+':
            d['trail'] = list(m.shape[1:]) + [2]
        elif bad == 'rank-':
            if m.ndim == 1:
                d['trail'] = [3]
            else:
                d['trail'] = list(m.shape[1:-1]) if m.ndim > 2 else []
                if m.ndim == 2 and m.shape[1] == 1:
                    d['trail'] = [1, 1]
        elif bad == 'unconvertible':
            return ['x', 'y'], None
        d['dtype'] = 'same' if d.get('dtype') is None else d['dtype']
        obj, ref = D.build(d, trail=None, target_dtype=m.dtype)
        return obj, ref

    def model_cast(self, obj):
        """What an accepted append of obj adds to the model, or None for reject."""
        m = self.model
        try:
            with np.errstate(all='ignore'):
                a = np.asarray(obj, dtype=m.dtype)
        except Exception:
            return None
        if a.ndim == 0:
            a = a.reshape(1)
        if a.ndim != m.ndim or a.shape[1:] != m.shape[1:]:
            return None
        return a

    def do_append(self, op):
        m = self.model
        if 'bad' in op:
            obj, _ = self.resolve_bad(op)
        else:
            obj, _ = D.build(op['data'], trail=m.shape[1:], target_dtype=m.dtype)
        exp = self.model_cast(obj)
        pre = self.state_snapshot() if (exp is None and self.has('reject')) else None
        prebytes = self.filebytes() if self.has('prefix') else None
        exc = self.call(lambda: self.h.append(obj))
        if exp is None:
            if exc is None:
                raise self.unexpected('reject.append', 'no_exception', f'bad={op.get("bad")}')
            if pre is not None:
                d = snap_diff(pre, self.state_snapshot())
                if d:
                    raise Viol('reject.append', 'state_changed', d)
            self.log('append', 'rejected')
        else:
            if exc is not None:
                raise self.unexpected('model.append', f'raises:{type(exc).__name__}', str(exc)[:300])
            if m.shape[0] == 0:
                self.probe('append_to_empty')
            if exp.shape[0] == 0:
                self.probe('zero_row_append')
            self.model = np.concatenate([m, exp]).astype(m.dtype, copy=False)
            self.mutations_ok += 1
            self.check_prefix(prebytes, grew=True)
            self.log('append', 'ok')
        self.after_step(op)

    def do_iterappend(self, op):
        m = self.model
        objs, exps = [], []
        for d in op['chunks']:
            obj, _ = D.build(d, trail=m.shape[1:], target_dtype=m.dtype)
            objs.append(obj)
            exps.append(self.model_cast(obj))
        if any(e is None for e in exps):
            # e.g. a list of Python complex numbers for a real array: a failing
            # chunk inside iterappend is C09's subject, not this engine's
            keep = [j for j, e in enumerate(exps) if e is not None]
            objs, exps = [objs[j] for j in keep], [exps[j] for j in keep]
            self.probe('dropped_unconvertible_chunk')
        how = op.get('as', 'list')
        it = objs if how == 'list' else tuple(objs) if how == 'tuple' else (o for o in objs)
        prebytes = self.filebytes() if self.has('prefix') else None
        exc = self.call(lambda: self.h.iterappend(it))
        if exc is not None:
            raise self.unexpected('model.iterappend', f'raises:{type(exc).__name__}', f'nchunks={len(objs)} {str(exc)[:200]}')
        if not objs:
            self.probe('iterappend_empty_iterable')
        if m.shape[0] == 0 and objs:
            self.probe('append_to_empty')
        if len(objs) > 1:
            self.probe('multi_chunk_iterappend')
        self.model = np.concatenate([m] + exps).astype(m.dtype, copy=False) if exps else m
        self.mutations_ok += 1
        self.check_prefix(prebytes, grew=True)
        self.log('iterappend', 'ok', {'n': len(objs)})
        self.after_step(op)

    def do_iterappend_fail(self, op):
        """an iterappend whose iterable fails at position pos: the call raises and
        the completely appended chunks remain (C09 semantics)"""
        m = self.model
        objs, exps = [], []
        for d in op['chunks']:
            obj, _ = D.build(d, trail=m.shape[1:], target_dtype=m.dtype)
            e = self.model_cast(obj)
            if e is None:
                obj, _ = D.build(dict(d, form='ndarray'), trail=m.shape[1:], target_dtype=m.dtype)
                e = self.model_cast(obj)
            objs.append(obj)
            exps.append(e)
        pos = min(op['pos'], len(objs))
        raise_at = None
        if op['how'] in ('raise', 'raise_base'):
            raise_at = pos
        elif op['how'] == 'badshape':
            tr = list(m.shape[1:])
            tr = (tr[:-1] + [tr[-1] + 1]) if tr else [2]
            objs = objs[:pos] + [np.zeros([1] + tr, dtype=m.dtype)] + objs[pos:]
        else:
            objs = objs[:pos] + [['x', 'y'] if m.ndim == 1 else object()] + objs[pos:]
        prebytes = self.filebytes() if self.has('prefix') else None
        exc = self.call(lambda: self.h.iterappend(failing_iterable(objs, 'generator', raise_at,
                                                                  Interrupt if op['how'] == 'raise_base' else Boom)))
        if exc is None:
            raise self.unexpected('model.iterappend_fail', 'no_exception', f'how={op["how"]} pos={pos}')
        self.model = np.concatenate([m] + exps[:pos]).astype(m.dtype, copy=False) if pos else m
        self.probe('iterappend_failed_after_%d_chunks' % min(pos, 2))
        if pos:
            self.mutations_ok += 1
        self.check_prefix(prebytes, grew=True)
        self.log('iterappend_fail', 'raised', {'pos': pos, 'how': op['how']})
        self.after_step(op)

    def resolve_index(self, ix):
        k = ix['k']
        if k == 'int':
            return ix['i']
        if k == 'slice':
            return slice(ix['a'], ix['b'], ix['s'])
        if k == 'all':
            return slice(None)
        if k == 'rowcol':
            if self.model.ndim >= 2:
                return (ix['i'], ix['j'])
            return ix['i']
        raise HarnessError(k)

    def do_setitem(self, op):
        m = self.model
        idx = self.resolve_index(op['index'])
        v = op['value']
        vd = m.dtype if v['dtype'] == 'same' else np.dtype(v['dtype'])
        try:
            target_shape = m[idx].shape
        except Exception:
            target_shape = ()
        if v['k'] == 'scalar':
            val = D.base_values('nonneg', (1,), vd, v['vseed'])[0]
        elif v['k'] == 'row':
            val = D.base_values('nonneg', m.shape[1:], vd, v['vseed'])
        elif v['k'] == 'match':
            val = D.base_values('nonneg', target_shape, vd, v['vseed'])
        else:
            val = D.base_values('nonneg', tuple(target_shape) + (3,), vd, v['vseed'])
        newm = m.copy()
        mexc = None
        try:
            with np.errstate(all='ignore'):
                newm[idx] = val
        except Exception as e:
            mexc = e
        pre = self.state_snapshot() if (mexc is not None and self.has('reject')) else None
        exc = self.call(lambda: self.h.__setitem__(idx, val))
        if mexc is not None:
            if exc is None:
                raise self.unexpected('reject.setitem', 'no_exception', f'model raised {type(mexc).__name__}')
            if pre is not None:
                d = snap_diff(pre, self.state_snapshot())
                if d:
                    raise Viol('reject.setitem', 'state_changed', d)
            self.log('setitem', 'rejected')
        else:
            if exc is not None:
                raise self.unexpected('model.setitem', f'raises:{type(exc).__name__}', str(exc)[:300])
            self.model = newm
            self.mutations_ok += 1
            self.log('setitem', 'ok')
        self.after_step(op)

    def do_truncate(self, op):
        m = self.model
        i = op['index']
        it = op.get('itype')
        if it == 'float':
            index = float(i)
        elif it == 'npint64':
            index = np.int64(i)
        elif it == 'npint32':
            index = np.int32(i)
        elif it == 'none':
            index = None
        elif it == 'str':
            index = str(i)
        elif it == 'list':
            index = [i]
        else:
            index = int(i)
        ok = False
        if it is None:
            newlen = len(m[:index])
            ok = 0 <= newlen < m.shape[0]
        by = op.get('by', 'handle')
        target = self.h if by == 'handle' else (self.path if by == 'strpath' else __import__('pathlib').Path(self.path))
        pre = self.state_snapshot() if (not ok and self.has('reject')) else None
        prebytes = self.filebytes() if self.has('prefix') else None
        exc = self.call(lambda: self.darr.truncate_array(target, index))
        if not ok:
            if exc is None:
                raise self.unexpected('reject.truncate', 'no_exception', f'index={index!r} len={m.shape[0]}')
            if pre is not None:
                d = snap_diff(pre, self.state_snapshot())
                if d:
                    raise Viol('reject.truncate', 'state_changed', d)
            self.log('truncate', 'rejected', {'it': it})
        else:
            if exc is not None:
                raise self.unexpected('model.truncate', f'raises:{type(exc).__name__}', f'index={index} len={m.shape[0]} {str(exc)[:200]}')
            self.model = m[:index].copy()
            if self.model.shape[0] == 0:
                self.probe('truncate_to_zero')
            self.mutations_ok += 1
            if by != 'handle':
                # the live handle is stale by construction: restart it
                self.h = self.darr.Array(self.path, accessmode=self.mode)
                self.probe('truncate_by_path')
            self.check_prefix(prebytes, grew=False)
            self.log('truncate', 'ok')
        self.after_step(op)

    def do_mode(self, op):
        self.h.accessmode = op['to']
        self.mode = op['to']
        self.log('mode', op['to'])
        self.after_step(op)

    def do_reopen(self, op):
        self.h = None
        if op['mode'] == 'default':
            self.h = self.darr.Array(self.path)
            self.mode = 'r'
            self.probe('r_by_default_open')
        else:
            self.h = self.darr.Array(self.path, accessmode=op['mode'])
            self.mode = op['mode']
        self.probe('restart')
        self.log('reopen', self.mode)
        self.after_step(op)

    def do_meta(self, op):
        pre = snapshot(self.path)
        out, problem = M.apply_meta_op(op, self.h.metadata, self.meta)
        if problem and (self.has('meta') or (self.has('outcome') and 'raises' in problem[1])):
            raise Viol(*problem)
        if problem:
            # exception classes and refusals of metadata calls are C13's clauses; the model cannot follow
            raise Diverged(f'{problem[0]}:{problem[1]}')
        if out in ('rejected', 'keyerror', 'default'):
            d = M.state_diff(pre, snapshot(self.path))
            if d and self.has('meta'):
                raise Viol('meta.reject', 'state_changed', f'{op["op"]}:{out}:{d}')
        if out == 'ok':
            self.mutations_ok += 1
        self.log(op['op'], out)
        self.after_step(op)

    def do_ctx(self, op):
        """enter/exit an open_array() context on the live handle; later appends/assignments happen inside it"""
        if op['do'] == 'enter':
            if len(self.ctxs) < 2 and self.mode == 'r+':
                cm = self.h.open_array()
                cm.__enter__()
                self.ctxs.append(cm)
                self.probe('ctx_entered')
        elif self.ctxs:
            self.ctxs.pop().__exit__(None, None, None)
        self.log('ctx', op['do'])
        self.after_step(op)

    def do_iterbreak(self, op):
        """start an iterchunks loop and leave it early (break / close / drop the generator)"""
        import gc
        m = self.model
        if m.shape[0] == 0:
            self.log('iterbreak', 'skipped_empty')
            return
        g = self.h.iterchunks(op['chunklen'])
        taken = 0
        try:
            for ch in g:
                exp = m[taken * op['chunklen']:(taken + 1) * op['chunklen']]
                if not D.arr_equal(ch, exp)[0]:
                    raise self.unexpected('model.iterchunks', 'chunk_differs', f'chunk {taken}')
                taken += 1
                if taken > op['take']:
                    break
        except Viol:
            raise
        except Exception as e:
            raise self.unexpected('model.iterchunks', f'raises:{type(e).__name__}', str(e)[:200])
        if op['how'] == 'close':
            g.close()
        del g
        gc.collect()
        self.probe('iteration_left_early')
        self.log('iterbreak', op['how'])
        if not self.ctxs:
            lk = leaks(self.path)
            if lk and self.has('leak'):
                raise Viol('leak.after_abandoned_iteration', lk[0][0], str(lk[:4]))
        self.after_step(op)

    def do_metamode(self, op):
        """the metadata object's own mode is set directly, then the handle's mode is (re)asserted:
        the handle's assignment decides for everything"""
        self.h.metadata.accessmode = op['meta']
        self.h.accessmode = op['handle']
        self.mode = op['handle']
        self.probe('metadata_mode_set_directly')
        self.log('metamode', f"{op['meta']}>{op['handle']}")
        self.after_step(op)

    def do_copycheck(self, op):
        """copy() to a second path; the copy's documentation must be current too (C08)"""
        import shutil
        p2 = os.path.join(self.sb, 'copy.darr')
        shutil.rmtree(p2, ignore_errors=True)
        dt = None if op.get('dtype') is None else np.dtype(op['dtype'])
        if dt is not None and D.dtstr(dt) != D.dtstr(self.model.dtype):
            dt = None       # casts are C15's subject; here only the documentation of the copy
        exc = self.call(lambda: self.h.copy(p2, dtype=dt, chunklen=op.get('chunklen')))
        if exc is not None:
            raise self.unexpected('model.copy', f'raises:{type(exc).__name__}', str(exc)[:200])
        if self.has('readme'):
            r = check_array_readme(p2, self.scratch, has_meta=bool(self.meta), who='array_copy')
            if r:
                raise Viol(*r)
        if self.has('decoder'):
            try:
                a, d = decode_array_dir(p2)
            except DecodeError as e:
                raise Viol('decoder.copy', str(e).split(':')[0], str(e))
            # the copy, read by the independent decoder, holds what the Darr API reports for the source
            if not D.arr_equal(a, np.array(self.darr.Array(self.path)[:]))[0]:
                raise Viol('decoder.copy', 'contents', '')
        shutil.rmtree(p2, ignore_errors=True)
        self.probe('copy_checked')
        self.log('copycheck', 'ok')

    def do_delete(self, op):
        exc = self.call(lambda: self.darr.delete_array(self.h))
        if exc is not None:
            raise self.unexpected('model.delete', f'raises:{type(exc).__name__}', str(exc)[:300])
        if os.path.lexists(self.path):
            raise self.unexpected('model.delete', 'path_remains', str(sorted(os.listdir(self.path)))[:200])
        self.mutations_ok += 1
        self.probe('deleted')
        self.h = None
        self.model = None
        self.steps += 1
        self.emit({'step': self.idx, 'op': 'delete', 'out': 'ok'})

    # -- read-only enforcement (C11)
    def fire(self, op):
        """Perform only the real call of a mutating op; returns (exception|None, must_raise)."""
        k = op['op']
        m = self.model
        if k == 'append':
            obj = self.resolve_bad(op)[0] if 'bad' in op else D.build(op['data'], trail=m.shape[1:], target_dtype=m.dtype)[0]
            exp = self.model_cast(obj)
            return self.call(lambda: self.h.append(obj)), not (exp is not None and exp.shape[0] == 0)
        if k in ('iterappend', 'iterappend_fail'):
            objs = [D.build(d, trail=m.shape[1:], target_dtype=m.dtype)[0] for d in op['chunks']]
            exps = [self.model_cast(o) for o in objs]
            eff = True if k == 'iterappend_fail' else any(e is None or e.shape[0] > 0 for e in exps)
            it = objs if op.get('as', 'list') != 'generator' else (o for o in objs)
            return self.call(lambda: self.h.iterappend(it)), eff
        if k == 'setitem':
            idx = self.resolve_index(op['index'])
            return self.call(lambda: self.h.__setitem__(idx, 1)), True
        if k == 'truncate':
            return self.call(lambda: self.darr.truncate_array(self.h, int(op['index']))), True
        if k == 'delete':
            return self.call(lambda: self.darr.delete_array(self.h)), True
        if k == 'recreate':
            return None, False
        md = self.h.metadata
        if k == 'meta_set':
            return self.call(lambda: md.__setitem__(op['key'], M.build_value(op['value']))), True
        if k == 'meta_update':
            d = M.build_dict(op['d'])
            return self.call(lambda: md.update(d)), bool(d)
        if k == 'meta_pop':
            if op.get('default') is None:
                return self.call(lambda: md.pop(op['key'])), True
            return self.call(lambda: md.pop(op['key'], M.build_value(op['default']))), op['key'] in self.meta
        if k == 'meta_popitem':
            return self.call(lambda: md.popitem()), True
        if k == 'meta_del':
            return self.call(lambda: md.__delitem__(op['key'])), True
        raise HarnessError(k)

    def do_readonly(self, op):
        k = op['op']
        if k == 'recreate':
            self.log(k, 'skipped_readonly')
            return
        pre = snapshot(self.path)
        exc, must = self.fire(op)
        d = snap_diff(pre, snapshot(self.path))
        empty = ':empty_array' if self.model.shape[0] == 0 else ''
        if d:
            raise Viol('ro.changed', k + empty, d)
        if must and exc is None:
            raise Viol('ro.no_exception', k + empty, '')
        self.probe('ro_fired:' + k)
        if self.model.shape[0] == 0:
            self.probe('ro_fired_on_empty_array')
        self.log(k, 'ro_raised' if exc is not None else 'ro_noop')
        # the same record must succeed after switching to r+
        self.h.accessmode = 'r+'
        self.mode = 'r+'
        if k == 'truncate' and op.get('by', 'handle') != 'handle':
            op = dict(op, by='handle')
        # "after switching the handle to 'r+' the same operations succeed": judged for the operations that had to be
        # refused in 'r'; whether any other call is accepted is C03's/C04's subject
        if must:
            self.oracles.add('outcome')
        try:
            getattr(self, 'do_' + (k if not k.startswith('meta_') else 'meta'))(op)
        finally:
            self.oracles.discard('outcome')
        if self.h is not None and op.get('back', True):
            self.h.accessmode = 'r'
            self.mode = 'r'
            self.probe('r_by_assignment')

    # -- common
    def call(self, f):
        try:
            f()
            return None
        except Exception as e:  # noqa
            return e.with_traceback(None)
        except Interrupt as e:
            return e.with_traceback(None)

    def state_snapshot(self):
        """The *state* a rejected call must leave unchanged: data bytes, the
        descriptor's meaning (not its formatting), metadata content."""
        import json
        out = {}
        for name in sorted(os.listdir(self.path)):
            p = os.path.join(self.path, name)
            if name == 'arraydescription.json':
                try:
                    with open(p) as f:
                        d = json.load(f)
                    out[name] = ('descr', tuple((k, str(d.get(k))) for k in
                                                ('numtype', 'byteorder', 'shape', 'arrayorder', 'darrobject')))
                except Exception as e:
                    out[name] = ('descr_unreadable', type(e).__name__)
            elif name == 'README.txt':
                out[name] = ('readme',)
            elif os.path.isfile(p):
                with open(p, 'rb') as f:
                    out[name] = ('file', f.read())
            else:
                out[name] = ('other',)
        return out

    def filebytes(self):
        with open(os.path.join(self.path, 'arrayvalues.bin'), 'rb') as f:
            return f.read()

    def check_prefix(self, prebytes, grew):
        if prebytes is None:
            return
        now = self.filebytes()
        if grew:
            if now[:len(prebytes)] != prebytes:
                raise Viol('prefix.append', 'leading_bytes_changed', f'{len(prebytes)} -> {len(now)}')
        else:
            if now != prebytes[:len(now)]:
                raise Viol('prefix.truncate', 'not_leading_prefix', f'{len(prebytes)} -> {len(now)}')

    def observe(self, h, who):
        m = self.model
        try:
            got = h[:]
            obs = (len(h), tuple(h.shape), h.size, h.nbytes, D.dtstr(h.dtype))
        except Exception as e:
            raise Viol(f'{who}.observe', f'raises:{type(e).__name__}', str(e)[:300])
        exp = (m.shape[0], tuple(m.shape), int(m.size), int(m.nbytes), D.dtstr(m.dtype))
        if obs != exp and not self.has('attrs'):
            # len/size/nbytes are C03's clause; elsewhere only what array equality needs (shape, dtype: below)
            self.probe('attribute_differs_from_model_not_this_propertys_subject')
        elif obs != exp:
            names = ('len', 'shape', 'size', 'nbytes', 'dtype')
            bad = [n for n, a, b in zip(names, obs, exp) if a != b]
            raise Viol(f'{who}.attrs', 'mismatch:' + ','.join(bad), f'{obs} != {exp}')
        if not isinstance(got, np.ndarray):
            raise Viol(f'{who}.contents', f'type:{type(got).__name__}', '')
        ok, why = D.arr_equal(got, m)
        if not ok:
            raise Viol(f'{who}.contents', why.split(' ')[0], why)

    def disk_oracles(self, use_model=True, fresh=None, in_ctx=False):
        """the oracles that read the directory only (decoder, README); use_model=False after the history left the model"""
        if self.has('decoder'):
            try:
                a, d = decode_array_dir(self.path)
            except DecodeError as e:
                raise Viol('decoder', str(e).split(':')[0], str(e))
            # C02 compares the decoder with what the Darr API reports (below); agreement of both with the reference
            # model is C01's and C03's subject and only judged where the model is one of the check's oracles
            ok, why = D.arr_equal(a, self.model)
            if not ok and use_model and self.has('model'):
                raise Viol('decoder.contents', why.split(' ')[0], why)
            if not ok and use_model:
                self.probe('decoder_and_api_agree_but_model_differs')
            if fresh is None:
                try:
                    fresh = self.darr.Array(self.path)
                except Exception as e:
                    raise Viol('decoder.api_open', f'raises:{type(e).__name__}', str(e)[:300])
            for hh, who in ((fresh, 'fresh'),) + (() if (in_ctx or not use_model) else ((self.h, 'live'),)):
                ok, why = D.arr_equal(a, hh[:])
                if not ok or D.dtstr(hh.dtype) != D.dtstr(a.dtype) or tuple(hh.shape) != a.shape:
                    raise Viol('decoder.vs_api', who + ':' + (why.split(' ')[0] or 'attrs'), why)
        if self.has('readme'):
            r = check_array_readme(self.path, self.scratch, has_meta=bool(self.meta) if use_model else None)
            if r:
                raise Viol(*r)

    def after_step(self, op):
        if self.h is None:
            return
        in_ctx = bool(self.ctxs)
        if self.has('model') and not in_ctx:
            self.observe(self.h, 'model')
        fresh = None
        if self.has('fresh'):
            try:
                fresh = self.darr.Array(self.path)
            except Exception as e:
                raise Viol('fresh.open', f'raises:{type(e).__name__}', str(e)[:300])
            self.observe(fresh, 'fresh')
        self.disk_oracles(fresh=fresh, in_ctx=in_ctx)
        if self.has('metacontent'):
            # "with identical metadata" (C15): the content only, through the live and a fresh handle
            r = M.check_meta(self.h.metadata, self.meta, os.path.join(self.path, 'metadata.json'), 'live', content_only=True)
            if r:
                raise Viol(*r)
            try:
                fm = self.darr.Array(self.path).metadata
            except Exception as e:
                raise Viol('fresh.open', f'raises:{type(e).__name__}', str(e)[:300])
            r = M.check_meta(fm, self.meta, os.path.join(self.path, 'metadata.json'), 'fresh', content_only=True)
            if r:
                raise Viol(*r)
        if self.has('meta'):
            r = M.check_meta(self.h.metadata, self.meta, os.path.join(self.path, 'metadata.json'), 'live')
            if r:
                raise Viol(*r)
            try:
                fm = self.darr.Array(self.path).metadata
            except Exception as e:
                raise Viol('fresh.open', f'raises:{type(e).__name__}', str(e)[:300])
            r = M.check_meta(fm, self.meta, os.path.join(self.path, 'metadata.json'), 'fresh')
            if r:
                raise Viol(*r)
        if self.has('leak'):
            lk = leaks(self.path)
            if lk:
                raise Viol('leak', lk[0][0], str(lk[:4]))


ArrayHistory.state_cls = _State
