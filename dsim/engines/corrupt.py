"""Corruption engine (C18): a valid directory reached by a short history,
then one stored-state corruption from the classes the property lists; every
way of opening must raise, and delete/truncate by path must refuse with
TypeError and change nothing."""
import json
import os
import pathlib
import numpy as np

from ..core import HarnessError, Union
from .. import data as D
from ..oracles import snapshot, snap_diff
from . import arrayhist as AH
from . import raggedhist as RH
from .arrayhist import Viol

# "unknown" tokens: none of them is an alias under which NumPy itself (or a case-insensitive reader) would find one of
# the documented values - a reader that resolves 'f8', '<i4', 'BIG' or order 'A' reads the right data and is not what
# C18 forbids; tokens that name a type outside the 13 supported ones stay
NUMTYPE_BAD = ['int33', 'int128', 'float128', 'float8', 'complex32', 'bool', 'str', 'object', 'datetime64', '', 'int 32',
               'integer32', 'real', 'quad', 'bfloat16', 'number', 'numeric',
               5, None, ['int32'], True, {'t': 'int8'}, 1.5]
BYTEORDER_BAD = ['litle', 'le', 'bogus', 'sideways', 'network', 'middle', 'swapped', '', 0, None, ['little'], True]
ARRAYORDER_BAD = ['CF', '', 'row', 'Z', 'column', 'X', 'order', 0, None, ['C'], True]
SHAPE_BAD = ['scalar', 'string', 'floats', 'float_first', 'negative', 'neg_all', 'nested', 'null', 'dict', 'str_items', 'none_item']
KEYS_ARRAY = ['numtype', 'byteorder', 'shape', 'arrayorder']   # without these the data cannot be interpreted
NOTJSON = ['', '{', '{"numtype": "int32", ', 'not json at all', '\x00\x01\x02', "{'numtype': 'int32'}", '{"a": 1} trailing']
NOTDICT = ['[]', '[1, 2]', '"a string"', '5', 'null', 'true', '[{"numtype": "int8"}]', '<pairs>', '<pairs>']


def gen_corruption(rng, ragged):
    target = rng.choice(['values', 'indices', 'values', 'indices', 'top']) if ragged else '.'
    if target == 'top':
        what = rng.choice(['descr_missing', 'descr_notjson', 'descr_notdict'])
        c = {'target': target, 'what': what}
    else:
        what = rng.choice(['descr_missing', 'descr_notjson', 'descr_notdict', 'key_removed', 'key_removed',
                           'numtype_bad', 'byteorder_bad', 'arrayorder_bad', 'shape_bad', 'shape_bad',
                           'len_delta', 'len_delta', 'len_delta', 'numtype_swap'])
        c = {'target': target, 'what': what}
    if what == 'descr_notjson':
        c['text'] = rng.choice(NOTJSON)
    elif what == 'descr_notdict':
        c['text'] = rng.choice(NOTDICT)
    elif what == 'key_removed':
        c['key'] = rng.choice(KEYS_ARRAY)
    elif what == 'numtype_bad':
        c['value'] = rng.choice(NUMTYPE_BAD)
    elif what == 'byteorder_bad':
        c['value'] = rng.choice(BYTEORDER_BAD)
    elif what == 'arrayorder_bad':
        c['value'] = rng.choice(ARRAYORDER_BAD)
    elif what == 'darrobject_unknown':
        c['value'] = rng.choice(['array', 'Raggedarray', 'Matrix', '', None, 5])
    elif what == 'shape_bad':
        c['how'] = rng.choice(SHAPE_BAD)
    elif what == 'len_delta':
        c['mode'] = rng.choice(['minus_all', 'minus_1', 'minus_item', 'minus_row', 'minus_rand', 'plus_1',
                                'plus_item', 'plus_row', 'plus_rand', 'plus_item_minus_1'])
        c['r'] = rng.randint(1, 10 ** 6)
    elif what == 'numtype_swap':
        c['r'] = rng.randint(0, 100)
    return c


def apply_corruption(root, c):
    """Returns a short tag of what was done, or None if not applicable to this state."""
    d = root if c['target'] in ('.', 'top') else os.path.join(root, c['target'])
    jp = os.path.join(d, 'arraydescription.json')
    bp = os.path.join(d, 'arrayvalues.bin')
    what = c['what']
    if what == 'descr_missing':
        os.unlink(jp)
        return what
    if what in ('descr_notjson', 'descr_notdict'):
        text = c['text']
        if text == '<pairs>':      # the same content as a JSON list of [key, value] pairs: not a dictionary
            with open(jp) as f:
                text = json.dumps([[k, v] for k, v in json.load(f).items()])
        with open(jp, 'w') as f:
            f.write(text)
        return what
    with open(jp) as f:
        desc = json.load(f)

    def put():
        with open(jp, 'w') as f:
            json.dump(desc, f, indent=4, sort_keys=True)
    if what == 'key_removed':
        desc.pop(c['key'], None)
        put()
        return f'{what}:{c["key"]}'
    if what == 'key_removed_darrobject':
        desc.pop('darrobject', None)
        put()
        return what
    if what == 'darrobject_unknown':
        desc['darrobject'] = c['value']
        put()
        return what
    if what in ('numtype_bad', 'byteorder_bad', 'arrayorder_bad'):
        desc[what.split('_')[0]] = c['value']
        put()
        return f'{what}:{type(c["value"]).__name__}'
    shape = list(desc['shape'])
    itemsize = np.dtype(desc['numtype']).itemsize
    rowbytes = itemsize
    for x in shape[1:]:
        rowbytes *= x
    if what == 'shape_bad':
        how = c['how']
        if how == 'scalar':
            desc['shape'] = shape[0]
        elif how == 'string':
            desc['shape'] = str(shape)
        elif how == 'floats':
            desc['shape'] = [float(x) for x in shape]
        elif how == 'float_first':
            desc['shape'] = [shape[0] + 0.5] + shape[1:]
        elif how == 'negative':
            desc['shape'] = [-shape[0] if shape[0] else -1] + shape[1:]
        elif how == 'neg_all':
            if len(shape) < 2 or len(shape) % 2 or 0 in shape:
                desc['shape'] = [-x if x else -1 for x in shape]
            else:
                desc['shape'] = [-x for x in shape]   # product unchanged: passes a size check
        elif how == 'nested':
            desc['shape'] = [shape]
        elif how == 'null':
            desc['shape'] = None
        elif how == 'dict':
            desc['shape'] = {'0': shape[0]}
        elif how == 'str_items':
            desc['shape'] = [str(x) for x in shape]
        elif how == 'none_item':
            desc['shape'] = [None] + shape[1:]
        put()
        return f'{what}:{how}'
    size = os.path.getsize(bp)
    if what == 'len_delta':
        m = c['mode']
        r = c['r']
        if m == 'minus_all':
            delta = -size
        elif m == 'minus_1':
            delta = -1
        elif m == 'minus_item':
            delta = -itemsize
        elif m == 'minus_row':
            delta = -rowbytes
        elif m == 'minus_rand':
            delta = -(r % size + 1) if size else 0
        elif m == 'plus_1':
            delta = 1
        elif m == 'plus_item':
            delta = itemsize
        elif m == 'plus_row':
            delta = rowbytes
        elif m == 'plus_rand':
            delta = r % 5000 + 1
        else:
            delta = itemsize - 1 if itemsize > 1 else 1
        if size + delta < 0 or delta == 0:
            return None
        if delta < 0:
            os.truncate(bp, size + delta)
        else:
            with open(bp, 'ab') as f:
                f.write(bytes((r + k) % 251 for k in range(delta)))
        tag = 'empty_array' if size == 0 else ('multiple_of_itemsize' if delta % itemsize == 0 else 'not_multiple')
        return f'{what}:{"short" if delta < 0 else "long"}:{tag}'
    if what == 'numtype_swap':
        others = [t for t in D.NUMTYPES if np.dtype(t).itemsize != itemsize]
        if size == 0:
            return None     # every numtype describes an empty file consistently
        desc['numtype'] = others[c['r'] % len(others)]
        put()
        return what
    raise HarnessError(what)


class _CorruptMixin:

    def do_corrupt(self, op, ragged):
        darr = self.darr
        c = op['c']
        self.h = None        # handles are dropped: the damage happens "offline"
        tag = apply_corruption(self.path, c)
        if tag is None:
            self.probe('corruption_not_applicable')
            self.log('corrupt', 'not_applicable')
            return
        self.faults[tag.split(':')[0]] = self.faults.get(tag.split(':')[0], 0) + 1
        self.probe('corrupt:' + tag)
        target = c['target']
        openers = []
        if ragged:
            if target != 'top':
                openers.append(('RaggedArray', lambda: darr.RaggedArray(self.path)))
                openers.append(('RaggedArray_r+', lambda: darr.RaggedArray(self.path, accessmode='r+')))
                sub = os.path.join(self.path, target)
                if c['what'] != 'key_removed_darrobject':
                    openers.append(('Array_sub', lambda: darr.Array(sub)))
                if c['what'] == 'key_removed_darrobject':
                    openers = [('open_sub', lambda: darr.open(sub))]
                else:
                    openers.append(('open', lambda: darr.open(self.path)))
            else:
                openers.append(('open', lambda: darr.open(self.path)))
        else:
            if c['what'] == 'key_removed_darrobject':
                openers.append(('open', lambda: darr.open(self.path)))
            else:
                openers.append(('Array', lambda: darr.Array(self.path)))
                openers.append(('Array_r+', lambda: darr.Array(self.path, accessmode='r+')))
                openers.append(('Array_Path', lambda: darr.Array(pathlib.Path(self.path))))
                openers.append(('open', lambda: darr.open(self.path)))
        for name, f in openers:
            try:
                obj = f()
            except Exception:
                continue
            extra = ''
            try:
                extra = f' shape={getattr(obj, "shape", None)} len={len(obj)}'
            except Exception:
                pass
            raise Viol('corrupt.opened', f'{tag}:{name}', f'{c} -> returned an object{extra}')
        # by-path mutators refuse with TypeError and change nothing
        judged_by_path = (not ragged and c['what'] != 'key_removed_darrobject') or (ragged and target != 'top'
                                                                                  and c['what'] != 'key_removed_darrobject')
        if judged_by_path:
            pre = snapshot(self.path)
            if ragged:
                muts = [('delete_raggedarray', lambda: darr.delete_raggedarray(self.path)),
                        ('truncate_raggedarray', lambda: darr.truncate_raggedarray(self.path, 0)),
                        ('delete_raggedarray_Path', lambda: darr.delete_raggedarray(pathlib.Path(self.path)))]
            else:
                muts = [('delete_array', lambda: darr.delete_array(self.path)),
                        ('truncate_array', lambda: darr.truncate_array(self.path, 0)),
                        ('truncate_array_Path', lambda: darr.truncate_array(pathlib.Path(self.path), 0))]
            for name, f in muts:
                try:
                    f()
                    raise Viol('corrupt.bypath', f'{tag}:{name}:no_exception', str(c))
                except TypeError:
                    pass
                except Viol:
                    raise
                except Exception as e:
                    raise Viol('corrupt.bypath', f'{tag}:{name}:{type(e).__name__}_not_TypeError', str(e)[:200])
                d = snap_diff(pre, snapshot(self.path))
                if d:
                    raise Viol('corrupt.bypath', f'{tag}:{name}:changed', d)
        self.mutations_ok += 1
        self.log('corrupt', tag)


class ArrayCorrupt(AH.ArrayHistory):
    prop = 'C18'
    level = 'fault_enumeration'
    oracles = ()
    weights = dict(append=20, iterappend=6, setitem=4, truncate=14, mode=0, reopen=4,
                   append_bad=0, truncate_bad=0, meta=4, recreate=0)
    batch = 60

    def gen(self, rng, i, tier):
        ops = [self.gen_create(rng)]
        ops[0]['mode'] = 'r+'
        for _ in range(rng.choice([0, 0, 1, 2])):
            ops.append(self.gen_op(rng))
        ops.append({'op': 'corrupt', 'c': gen_corruption(rng, False)})
        return {'engine': type(self).__name__, 'prop': self.prop, 'ops': ops}

    def features(self, sc, v):
        op = sc['ops'][-1]
        return ['what=' + op['c']['what'], 'target=' + op['c']['target']] if op['op'] == 'corrupt' else []

    def rule(self):
        return ('valid directory from create + 0-2 ops (1-D, N-D, 0-row; ragged: values/ or indices/ or top-level), then one '
                'corruption drawn from: descriptor missing / not JSON / not a dict / required key removed / unknown '
                'numtype, byteorder, arrayorder token (wrong case, near miss, other JSON type) / invalid shape / data '
                'length off by -all..+k incl. non-multiples / numtype swapped for another item size; non-trivial = '
                'corruption applied; distinct = distinct scenario digests')

    def nontrivial(self, scenario, stats):
        return sum((stats.get('faults') or {}).values()) >= 1


class _ACorState(_CorruptMixin, AH._State):
    def step(self, op):
        if op['op'] == 'corrupt':
            if self.model is None:
                return
            return self.do_corrupt(op, False)
        return super().step(op)


ArrayCorrupt.state_cls = _ACorState


class RaggedCorrupt(RH.RaggedHistory):
    prop = 'C18'
    level = 'fault_enumeration'
    oracles = ()
    weights = dict(append=22, iterappend=8, truncate=10, mode=0, reopen=4, append_bad=0,
                   truncate_bad=0, getbad=0, iter=0, meta=0)
    batch = 40
    create_empty_p = 0.05

    def gen(self, rng, i, tier):
        ops = [self.gen_create(rng)]
        ops[0]['mode'] = 'r+'
        for _ in range(rng.choice([0, 1, 2])):
            ops.append(self.gen_op(rng))
        ops.append({'op': 'corrupt', 'c': gen_corruption(rng, True)})
        return {'engine': type(self).__name__, 'prop': self.prop, 'ops': ops}

    features = ArrayCorrupt.features

    def rule(self):
        return ArrayCorrupt().rule()

    def nontrivial(self, scenario, stats):
        return sum((stats.get('faults') or {}).values()) >= 1


class _RCorState(_CorruptMixin, RH._RState):
    def __init__(self, *a):
        super().__init__(*a)
        self.faults = {}

    def stats(self):
        s = super().stats()
        s['faults'] = self.faults
        return s

    def step(self, op):
        if op['op'] == 'corrupt':
            if self.L is None:
                return
            return self.do_corrupt(op, True)
        return super().step(op)


RaggedCorrupt.state_cls = _RCorState


def build():
    return Union('C18', [(3, ArrayCorrupt()), (2, RaggedCorrupt())], level='fault_enumeration', batch=50)
