"""Append-fault engines: a short history produces the start state, then one
append/iterappend runs under an injected fault (failing iterable, kernel file
size limit at a byte offset, ENOSPC on the n-th tofile).  C09 (Array) and C10
(RaggedArray)."""
import copy
import os
import numpy as np

from ..core import HarnessError
from .. import data as D
from ..faults import fsize_limit, tofile_seam, SeamPlan
from ..oracles import decode_array_dir, decode_ragged_dir, DecodeError, leaks
from . import arrayhist as AH
from . import raggedhist as RH
from .arrayhist import Viol

ITER_FAULTS = ('iter_raise', 'iter_badshape', 'iter_badrank', 'iter_unconvertible')
WHERE = ('start-1', 'start', 'start+1', 'mid_elem', 'mid_row', 'end-1', 'end')
BIG = 16384


from .arrayhist import Boom as _Boom, Interrupt as _Interrupt, failing_iterable as _iterable   # noqa


# =============================================================================
# C09
# =============================================================================

class _Watch:
    """What the iterable handed to Darr sees: every time Darr asks for the next item (or the iterable raises / ends)
    the sizes of the watched files are recorded.  From the last record the oracle derives how many chunks were
    *completely appended before the failure* - whatever Darr's internal strategy (write as consumed, validate first,
    buffer, skip empty writes) - instead of assuming one strategy."""

    def __init__(self, files):
        self.files = files
        self.last = None          # sizes at the last request
        self.handed = 0           # items handed out in the current pass
        self.exhausted = False

    def note(self):
        try:
            self.last = tuple(os.path.getsize(p) for p in self.files)
        except OSError:
            self.last = None


def _watched_gen(objs, raise_at, exc, watch):
    watch.handed = 0
    for j, o in enumerate(objs):
        watch.note()
        if raise_at is not None and j == raise_at:
            raise exc('iterable failed (injected)')
        watch.handed = j + 1
        yield o
    watch.note()
    if raise_at is not None and raise_at >= len(objs):
        raise exc('iterable failed (injected)')
    watch.exhausted = True


class _WatchedList(list):
    """a real list (so a Darr that treats sequences specially still does), whose iteration is watched"""
    _watch = None

    def __iter__(self):
        return _watched_gen(list(list.__iter__(self)), None, None, self._watch)


def _watched(objs, how, raise_at, exc, watch):
    if raise_at is None and how == 'list':
        wl = _WatchedList(objs)
        wl._watch = watch
        return wl
    if raise_at is None and how == 'tuple':
        return tuple(objs)
    return _watched_gen(objs, raise_at, exc, watch)


def _prefix_range(watch, single, raised, iter_pos, fit_j, n, complete_at):
    """[lo, hi]: how many of the n chunks may remain after a failed call.  lo = those that were completely on disk
    when Darr last asked the iterable for an item (complete_at(sizes) -> count); hi = the items before the failing
    one: iter_pos for a fault of the iterable itself, else the items handed out minus the one being written, and
    never more than fit below an injected size limit (fit_j)."""
    if single:
        return 0, 0
    lo = 0
    if watch is not None and watch.last is not None:
        lo = complete_at(watch.last)
    if iter_pos is not None:
        hi = iter_pos
    elif watch is not None and (watch.handed or watch.exhausted):
        hi = n - 1 if watch.exhausted else max(watch.handed - 1, 0)
    else:
        hi = n - 1
    if fit_j is not None:
        hi = min(hi, fit_j)
    return min(lo, hi), max(hi, 0)


class ArrayAppendFault(AH.ArrayHistory):
    prop = 'C09'
    level = 'fault_enumeration'
    oracles = ()
    weights = dict(append=20, iterappend=10, setitem=8, truncate=14, mode=0, reopen=12,
                   append_bad=0, truncate_bad=0, meta=0, recreate=0)
    quick_runs = 5000
    thorough_runs = 150000
    batch = 40
    fault_kinds = ('none', 'iter_raise', 'iter_badshape', 'iter_badrank', 'iter_unconvertible',
                   'efbig_kernel', 'efbig_kernel', 'enospc_seam', 'enospc_seam')

    def gen(self, rng, i, tier):
        kind = rng.choice(self.fault_kinds)
        dtype = D.pick_dtype(rng)
        ndim = rng.choice([1, 1, 2, 3])
        trail = [rng.choice([1, 2, 3]) for _ in range(ndim - 1)]
        rowbytes = int(np.prod(trail, dtype=np.int64)) * np.dtype(dtype).itemsize
        empty = rng.random() < 0.4
        big = kind == 'efbig_kernel'
        rows = 0 if empty else rng.choice([1, 2, 3, 5, 8])
        if big and not empty:
            rows = BIG // rowbytes + rng.randint(1, 9)
        ops = [{'op': 'create', 'how': 'asarray',
                'data': {'gen': 'rand', 'rows': rows, 'trail': trail, 'dtype': dtype, 'layout': 'C',
                         'form': 'ndarray', 'vseed': rng.getrandbits(32)},
                'mode': 'r+', 'chunklen': None}]
        if not empty:
            for _ in range(rng.choice([0, 0, 1, 2, 4])):
                op = self.gen_op(rng)
                if big and op['op'] == 'truncate':
                    op['index'] = -abs(op['index']) if op['index'] else -1   # keep the file big
                ops.append(op)
        elif rng.random() < 0.3:
            # empty by truncation rather than by creation
            ops[0]['data']['rows'] = 3
            ops.append({'op': 'truncate', 'index': 0, 'by': 'handle'})
        call = rng.choice(['iterappend', 'iterappend', 'iterappend', 'append'])
        n = 1 if call == 'append' else rng.choice([0, 1, 2, 3, 4, 6] + ([8, 10, 12] if tier == 'thorough' else []))
        chunks = []
        for j in range(n):
            c = self.gen_data(rng, rows=rng.choice([0, 1, 1, 2, 3, 5]), other_dtype_p=0.2)
            if big and (rng.random() < 0.3 or (empty and j == 0)):
                c['rows'] = (BIG if (empty and j == 0) else rng.choice([5000, 9000, 20000])) // rowbytes + 1
                c['form'] = 'ndarray'
            chunks.append(c)
        fault = {'kind': kind}
        if kind in ITER_FAULTS:
            if call == 'append':
                if kind == 'iter_raise':
                    fault['kind'] = kind = 'iter_badshape'
                fault['pos'] = 0
            else:
                fault['pos'] = rng.randint(0, n)
            fault['empty_bad'] = rng.random() < 0.25
            fault['base'] = rng.random() < 0.35      # the iterable raises a BaseException that is not an Exception
        elif kind == 'efbig_kernel':
            fault['chunk'] = rng.randint(0, max(0, n - 1))
            fault['where'] = rng.choice(WHERE)
            fault['frac'] = rng.random()
        elif kind == 'enospc_seam':
            fault['nth'] = rng.randint(0, max(0, n - 1))
            fault['where'] = rng.choice(['zero', 'one', 'mid_elem', 'mid_row', 'end-1', 'all'])
            fault['frac'] = rng.random()
        fop = {'op': 'faultappend', 'call': call, 'as': rng.choice(['list', 'generator']),
               'chunks': chunks, 'fault': fault}
        ops.append(fop)
        # drawn last, so that the scenarios of earlier seeds are unchanged up to this key
        if rng.random() < 0.2:
            # the failing call happens inside a `with a.open_array():` block in which an ordinary append has
            # already succeeded (the shared map then still has the length it had when the block was entered)
            fop['ctx'] = {'pre': [self.gen_data(rng, rows=rng.choice([1, 1, 2, 3]), other_dtype_p=0.0)
                                  for _ in range(rng.choice([1, 1, 2]))]}
        return {'engine': type(self).__name__, 'prop': self.prop, 'ops': ops}

    def simplify(self, sc):
        yield from super().simplify(sc)
        ops = sc['ops']
        i = len(ops) - 1
        op = ops[i]
        if op['op'] != 'faultappend':
            return

        def cand(newop):
            c = copy.deepcopy(sc)
            c['ops'][i] = newop
            return c
        ch = op['chunks']
        f = op['fault']
        for j in range(len(ch)):
            # dropping a chunk after the fault position never changes the failure
            nf = dict(f)
            if 'pos' in f and j < f['pos']:
                nf['pos'] = f['pos'] - 1
            if 'chunk' in f and j < f['chunk']:
                nf['chunk'] = f['chunk'] - 1
            if 'nth' in f and j < f['nth']:
                nf['nth'] = f['nth'] - 1
            yield cand(dict(op, chunks=ch[:j] + ch[j + 1:], fault=nf))
        for j, d in enumerate(ch):
            if d.get('layout') != 'C' or d.get('dtype') != 'same' or d.get('form') != 'ndarray':
                yield cand(dict(op, chunks=ch[:j] + [dict(d, layout='C', dtype='same', form='ndarray')] + ch[j + 1:]))
            if d['rows'] > 1 and d['rows'] < 100:
                yield cand(dict(op, chunks=ch[:j] + [dict(d, rows=1)] + ch[j + 1:]))
        if op.get('as') != 'list':
            yield cand(dict(op, **{'as': 'list'}))

    def shrink_keep_prefix(self, scenario):
        return 1

    def features(self, sc, v):
        f = []
        op = sc['ops'][-1]
        if op['op'] == 'faultappend':
            f.append('fault=' + op['fault']['kind'])
            f.append('call=' + op['call'])
        c = sc['ops'][0]
        rows = c['data']['rows'] if 'data' in c else c['shape'][0]
        if any(o['op'] == 'truncate' and o.get('index') == 0 for o in sc['ops'][1:-1]):
            rows = 0
        f.append('start_empty' if rows == 0 else 'start_nonempty')
        return f

    def rule(self):
        return ('start state from a 0-4 op prefix history; one append/iterappend of 0-6 chunks under one fault '
                '(failing iterable at position k; RLIMIT_FSIZE at chunk boundary +-1 / mid element / mid row; '
                'ENOSPC after b bytes of the n-th tofile; or none = control); non-trivial = the fault fired '
                '(or control completed); distinct = distinct scenario digests')

    def nontrivial(self, scenario, stats):
        return stats.get('mutations_ok', 0) >= 1 or sum((stats.get('faults') or {}).values()) >= 1

    def components(self):
        c = super().components()
        c['real'].append('kernel RLIMIT_FSIZE/EFBIG through numpy tofile + C stdio')
        c['stub'].append('enospc_seam: ndarray subclass whose tofile writes a prefix and raises OSError(ENOSPC)')
        return c


class _FState(AH._State):

    def step(self, op):
        if op['op'] == 'faultappend':
            if self.h is None:
                self.log('faultappend', 'skipped_no_array')
                return
            if self.mode != 'r+':
                self.h.accessmode = 'r+'
                self.mode = 'r+'
            return self.do_faultappend(op)
        return super().step(op)

    def fault(self, name):
        self.faults[name] = self.faults.get(name, 0) + 1

    def build_chunks(self, op):
        m = self.model
        objs, exps = [], []
        for d in op['chunks']:
            obj, _ = D.build(d, trail=m.shape[1:], target_dtype=m.dtype)
            e = self.model_cast(obj)
            if e is None:       # accidental unconvertible (complex list into real): make it an ndarray
                obj, _ = D.build(dict(d, form='ndarray'), trail=m.shape[1:], target_dtype=m.dtype)
                e = self.model_cast(obj)
            if e is None:
                raise HarnessError('chunk not castable')
            objs.append(obj)
            exps.append(e)
        return objs, exps

    def bad_object(self, kind, empty=False):
        m = self.model
        if kind == 'iter_badshape':
            tr = list(m.shape[1:])
            tr = (tr[:-1] + [tr[-1] + 1]) if tr else [2]
            if empty:      # a chunk without elements can be incompatible too: (0, k+1) for trailing shape (k,)
                return np.zeros(([0] + tr) if m.ndim > 1 else [3, 0], dtype=m.dtype)
            return np.zeros([2] + tr, dtype=m.dtype)
        if kind == 'iter_badrank':
            if empty:
                return np.zeros([3] + list(m.shape[1:]) + [0], dtype=m.dtype)
            return np.zeros([2] + list(m.shape[1:]) + [2], dtype=m.dtype)
        if kind == 'iter_unconvertible':
            return ['x', 'y'] if m.ndim == 1 else [['x'] * m.shape[1]] if m.ndim == 2 else object()
        raise HarnessError(kind)

    def do_faultappend(self, op):
        m = self.model
        f = op['fault']
        kind = f['kind']
        cm = None
        if op.get('ctx'):
            # the statement quantifies over every failing append; one made inside an open_array() block after
            # a successful append in the same block is one of them.  Only the failing call and what is on disk /
            # seen once the block has been left are judged (reads *inside* the block are no subject of C09).
            cm = self.h.open_array()
            cm.__enter__()
            for d in op['ctx']['pre']:
                obj, _ = D.build(dict(d, form='ndarray'), trail=m.shape[1:], target_dtype=m.dtype)
                e = self.model_cast(obj)
                if e is None:
                    cm.__exit__(None, None, None)
                    raise HarnessError('pre chunk not castable')
                try:
                    self.h.append(obj)
                except Exception as e2:     # noqa  - a completed append is C03's clause, not this check's
                    cm.__exit__(None, None, None)
                    raise AH.Diverged(f'append inside open_array raised {type(e2).__name__}')
                self.model = m = np.concatenate([m, e]).astype(m.dtype, copy=False)
            self.probe('fault_inside_open_array_after_append')
        objs, exps = self.build_chunks(op)
        n = len(objs)
        datafile = os.path.join(self.path, 'arrayvalues.bin')
        base = os.path.getsize(datafile)
        if base != m.nbytes:
            raise HarnessError('model and file disagree before the fault')
        sizes = [e.nbytes for e in exps]
        cum = [base]
        for s in sizes:
            cum.append(cum[-1] + s)
        itemsize = m.dtype.itemsize
        rowbytes = itemsize * int(np.prod(m.shape[1:], dtype=np.int64))
        expect_j, must_raise = n, False
        raise_at = None
        limit = None
        plan = None
        if kind in ITER_FAULTS:
            pos = min(f['pos'], n)
            if kind == 'iter_raise':
                raise_at = pos
            else:
                objs = objs[:pos] + [self.bad_object(kind, empty=bool(f.get('empty_bad')))] + objs[pos:]
                if f.get('empty_bad'):
                    self.probe('bad_chunk_without_elements')
            expect_j, must_raise = pos, True
        elif kind == 'efbig_kernel':
            if n == 0:
                kind = 'none'
            else:
                j = min(f['chunk'], n - 1)
                a, b = cum[j], cum[j + 1]
                w = f['where']
                nrows = sizes[j] // rowbytes if rowbytes else 0
                if w == 'start-1':
                    limit = a - 1
                elif w == 'start':
                    limit = a
                elif w == 'start+1':
                    limit = a + 1
                elif w == 'mid_elem':
                    ne = sizes[j] // itemsize
                    limit = a + (int(f['frac'] * ne) * itemsize + max(1, itemsize // 2) if ne else 0)
                elif w == 'mid_row':
                    limit = a + (int(f['frac'] * nrows) * rowbytes + max(itemsize, (rowbytes // 2) // itemsize * itemsize) if nrows else 0)
                elif w == 'end-1':
                    limit = b - 1
                else:
                    limit = b
                limit = max(limit, 0)
                # only growth of the data file may be refused
                others = [os.path.getsize(os.path.join(self.path, x)) for x in os.listdir(self.path)
                          if x != 'arrayvalues.bin']
                if limit < max(others + [0]) + 2048:
                    self.probe('discarded_limit_below_text_files')
                    self.log('faultappend', 'discarded')
                    if cm is not None:
                        cm.__exit__(None, None, None)
                    return
                expect_j = n
                for jj in range(n):
                    if sizes[jj] > 0 and cum[jj + 1] > limit:
                        expect_j = jj
                        break
                must_raise = expect_j < n
        elif kind == 'enospc_seam':
            if n == 0:
                kind = 'none'
            else:
                j = min(f['nth'], n - 1)
                w = f['where']
                sz = sizes[j]
                nb = {'zero': 0, 'one': 1, 'mid_elem': (int(f['frac'] * (sz // itemsize)) * itemsize + max(1, itemsize // 2)) if sz else 0,
                      'mid_row': (int(f['frac'] * (sz // rowbytes)) * rowbytes + rowbytes // 2) if sz and rowbytes else 0,
                      'end-1': max(sz - 1, 0), 'all': sz}[w]
                plan = SeamPlan(None, j, min(nb, sz))
                expect_j, must_raise = j, True
        how = op.get('as', 'list')
        single = op['call'] == 'append'
        watch = None
        if single:
            arg = objs[0] if objs else np.zeros((0,) + m.shape[1:], dtype=m.dtype)
            if not objs:
                exps = [self.model_cast(arg)]
                expect_j = 1 if not must_raise else expect_j
            call = lambda: self.h.append(arg)   # noqa
        else:
            watch = _Watch([datafile])
            it = _watched(objs, how, raise_at, _Interrupt if f.get('base') else _Boom, watch)
            if raise_at is not None and f.get('base'):
                self.probe('iterable_raised_non_Exception')
            call = lambda: self.h.iterappend(it)   # noqa
        exc = None
        try:
            if limit is not None:
                with fsize_limit(limit):
                    call()
            elif plan is not None:
                with tofile_seam(self.darr, plan):
                    call()
            else:
                call()
        except (Exception, _Interrupt) as e:   # noqa
            exc = e
        finally:
            if cm is not None:
                cm.__exit__(None, None, None)
        if plan is not None:
            if plan.engaged == 0:
                self.probe('seam_unavailable')
                self.log('faultappend', 'seam_unavailable')
                # nothing was injected; fall through as a control
                must_raise = False
                expect_j = len(exps)
            elif plan.fired:
                self.fault('enospc_seam')
            else:
                # the arrays pass through the seam but are not written with tofile in this tree
                self.probe('seam_engaged_but_never_fired')
                must_raise = False
                expect_j = len(exps)
        if kind in ITER_FAULTS:
            self.fault(kind)
        if limit is not None and must_raise:
            self.fault('efbig_kernel')
            if sizes[expect_j] < 4096:
                self.probe('efbig_inside_chunk_smaller_than_stdio_buffer')
        if limit is not None and not must_raise:
            self.probe('efbig_not_reached')
        start_empty = m.shape[0] == 0 or m.size == 0
        tag = f'{kind}:{"empty" if start_empty else "nonempty"}'
        if expect_j == 0 and start_empty:
            self.probe('fault_in_first_chunk_of_empty_array')
        # ---- which whole-chunk prefixes may remain: "the chunks that were completely appended before the failure"
        lo = hi = expect_j
        if must_raise and exc is not None:
            def complete_at(sz):
                size = sz[0]
                eq = [k for k in range(len(cum)) if cum[k] == size]
                return eq[0] if eq else max([k for k in range(len(cum)) if cum[k] < size] or [0])
            lo, hi = _prefix_range(watch, single, True, pos if kind in ITER_FAULTS else None,
                                   expect_j if limit is not None else None, len(exps), complete_at)
            if (lo, hi) != (expect_j, expect_j):
                self.probe('completed_chunks_observed_differ_from_write_as_consumed')
        expected = np.concatenate([m] + exps[:expect_j]).astype(m.dtype, copy=False) if expect_j else m
        # ---- oracle
        if must_raise and exc is None:
            detail = f'expected failure after {expect_j} of {len(exps)} chunks; file={os.path.getsize(datafile)} limit={limit}'
            # keep going to see what state it left, but the call had to raise
            raise Viol('fault.no_exception', tag, detail)
        unknown_j = False
        if not must_raise and exc is not None:
            # the call failed for a reason this run did not inject (whether that call should have been accepted is
            # C03's subject): C09 still owes an openable array holding exactly the completed chunks - some prefix
            self.probe('call_without_injected_fault_raised')
            unknown_j = True
        try:
            fresh = self.darr.Array(self.path)
        except Exception as e:
            raise Viol('fault.fresh_open', f'{tag}:{type(e).__name__}',
                       f'j={expect_j} file={os.path.getsize(datafile)} {str(e)[:200]}')
        try:
            dec, _ = decode_array_dir(self.path)
        except DecodeError as e:
            raise Viol('fault.decoder', f'{tag}:{str(e).split(":")[0]}', str(e))
        got = fresh[:]
        if unknown_j:
            for jj in range(len(exps), -1, -1):
                alt = np.concatenate([m] + exps[:jj]).astype(m.dtype, copy=False) if jj else m
                if D.arr_equal(got, alt)[0]:
                    expected, expect_j = alt, jj
                    break
        ok, why = D.arr_equal(got, expected)
        if not ok:
            cls = 'wrong'
            matches = []
            for jj in range(len(exps) + 1):
                alt = np.concatenate([m] + exps[:jj]).astype(m.dtype, copy=False) if jj else m
                if D.arr_equal(got, alt)[0]:
                    matches.append(jj)
            inrange = [jj for jj in matches if lo <= jj <= hi]
            if inrange:
                # another whole-chunk prefix that is consistent with what was on disk when the failure happened
                expect_j = inrange[-1]
                expected = np.concatenate([m] + exps[:expect_j]).astype(m.dtype, copy=False) if expect_j else m
                ok = True
            elif matches:
                cls = f'has_{"more" if matches[0] > hi else "fewer"}_chunks'
        if not ok:
            raise Viol('fault.contents', f'{tag}:{cls}', f'expected {lo}..{hi} chunks; {why}; got shape {got.shape}')
        ok, why = D.arr_equal(dec, expected)
        if not ok:
            raise Viol('fault.decoder_contents', tag, why)
        try:
            live = self.h[:]
            lshape = tuple(self.h.shape)
        except Exception as e:
            raise Viol('fault.live', f'{tag}:raises:{type(e).__name__}', str(e)[:200])
        ok, why = D.arr_equal(live, expected)
        if not ok or lshape != expected.shape or len(self.h) != expected.shape[0] or self.h.size != expected.size:
            raise Viol('fault.live', f'{tag}:disagrees_with_fresh', f'{lshape} vs {expected.shape} {why}')
        if leaks(self.path):
            self.probe('descriptor_still_open_after_failed_append')     # recorded; C09 has no leak clause
        self.model = expected
        if exc is None:
            self.mutations_ok += 1
        self.log('faultappend', 'raised' if exc is not None else 'ok',
                 {'kind': kind, 'j': expect_j, 'n': len(exps), 'exc': type(exc).__name__ if exc else None})


ArrayAppendFault.state_cls = _FState


# =============================================================================
# C10
# =============================================================================

class RaggedAppendFault(RH.RaggedHistory):
    prop = 'C10'
    level = 'fault_enumeration'
    oracles = ()
    weights = dict(append=22, iterappend=10, truncate=14, mode=0, reopen=12, append_bad=0,
                   truncate_bad=0, getbad=0, iter=0, meta=0)
    quick_runs = 3000
    thorough_runs = 80000
    batch = 30
    create_empty_p = 0.12
    fault_kinds = ('none', 'iter_raise', 'iter_badshape', 'iter_badrank', 'iter_unconvertible',
                   'index_overflow', 'efbig_values', 'efbig_indices', 'enospc_values', 'enospc_values',
                   'enospc_indices', 'enospc_indices')

    def gen(self, rng, i, tier):
        kind = rng.choice(self.fault_kinds)
        create = self.gen_create(rng)
        dtype = create['dtype']
        atom = create['atom']
        if kind == 'index_overflow':
            create['indextype'] = rng.choice(['int8', 'uint8', 'int16'])
            create['atom'] = atom = []
            if create['how'] == 'asraggedarray':
                for it in create['items']:
                    it['rows'] = min(it['rows'], 3)
        if kind == 'efbig_values':
            # values file >= 16 KiB at the start (one big first subarray), indices small
            create = {'op': 'create', 'how': 'asraggedarray', 'atom': atom, 'dtype': dtype, 'indextype': 'int64',
                      'mode': 'r+', 'dtypearg': None, 'as': 'list',
                      'items': [{'rows': BIG // (np.dtype(dtype).itemsize * int(np.prod(atom or [1]))) + rng.randint(1, 5),
                                 'trail': 'match', 'layout': 'C', 'form': 'ndarray', 'vseed': rng.getrandbits(32),
                                 'dtype': dtype, 'gen': 'rand'}]}
        if kind == 'efbig_indices':
            # >= 8200 subarrays of one int8 value: indices (int16 rows of 4 bytes... use int64: 16 B/row) is the bigger file
            create = {'op': 'create', 'how': 'asraggedarray', 'atom': [], 'dtype': '<i1', 'indextype': 'int64',
                      'mode': 'r+', 'dtypearg': None, 'as': 'generator', 'nitems': 1100 + rng.randint(0, 50),
                      'items': [{'rows': 1, 'trail': 'match', 'layout': 'C', 'form': 'ndarray', 'vseed': 1,
                                 'dtype': '<i1', 'gen': 'arange'}]}
        ops = [create]
        if kind not in ('efbig_indices',):
            for _ in range(rng.choice([0, 0, 1, 2, 3])):
                op = self.gen_op(rng)
                if kind == 'efbig_values' and op['op'] == 'truncate':
                    continue
                ops.append(op)
        call = rng.choice(['iterappend', 'iterappend', 'iterappend', 'append'])
        n = 1 if call == 'append' else rng.choice([0, 1, 2, 3, 4, 6] + ([8, 10] if tier == 'thorough' else []))
        items = [self.gen_item(rng, other_p=0.2) for _ in range(n)]
        if kind == 'efbig_indices':
            items = [dict(it, rows=rng.choice([0, 1, 1, 2]), dtype='same', gen='safe', form='ndarray') for it in items]
        if kind == 'efbig_values' and n and rng.random() < 0.3:
            items[rng.randrange(n)]['rows'] = 9000 // (np.dtype(dtype).itemsize * int(np.prod(atom or [1]))) + 1
        fault = {'kind': kind}
        if kind in ITER_FAULTS:
            if call == 'append':
                if kind == 'iter_raise':
                    fault['kind'] = 'iter_badshape'
                fault['pos'] = 0
            else:
                fault['pos'] = rng.randint(0, n)
            fault['empty_bad'] = rng.random() < 0.25
            fault['base'] = rng.random() < 0.35
        elif kind == 'index_overflow':
            fault['pos'] = rng.randint(0, max(0, n - 1))
        elif kind.startswith('efbig'):
            fault['item'] = rng.randint(0, max(0, n - 1))
            fault['where'] = rng.choice(['start-1', 'start', 'start+1', 'mid', 'end-1', 'end'])
            fault['frac'] = rng.random()
        elif kind.startswith('enospc'):
            fault['nth'] = rng.randint(0, max(0, n - 1))
            fault['where'] = rng.choice(['zero', 'one', 'mid', 'end-1', 'all'])
            fault['frac'] = rng.random()
        ops.append({'op': 'faultappend', 'call': call, 'as': rng.choice(['list', 'generator']),
                    'items': items, 'fault': fault})
        return {'engine': type(self).__name__, 'prop': self.prop, 'ops': ops}

    def simplify(self, sc):
        yield from super().simplify(sc)
        ops = sc['ops']
        i = len(ops) - 1
        op = ops[i]
        if op['op'] != 'faultappend':
            return

        def cand(newop):
            c = copy.deepcopy(sc)
            c['ops'][i] = newop
            return c
        its = op['items']
        f = op['fault']
        for j in range(len(its)):
            nf = dict(f)
            for key in ('pos', 'item', 'nth'):
                if key in f and j < f[key]:
                    nf[key] = f[key] - 1
            yield cand(dict(op, items=its[:j] + its[j + 1:], fault=nf))
        for j, d in enumerate(its):
            if d.get('layout') != 'C' or d.get('dtype') != 'same' or d.get('form') != 'ndarray':
                yield cand(dict(op, items=its[:j] + [dict(d, layout='C', dtype='same', form='ndarray')] + its[j + 1:]))
            if 1 < d['rows'] < 100:
                yield cand(dict(op, items=its[:j] + [dict(d, rows=1)] + its[j + 1:]))
        if op.get('as') != 'list':
            yield cand(dict(op, **{'as': 'list'}))

    def features(self, sc, v):
        f = []
        op = sc['ops'][-1]
        if op['op'] == 'faultappend':
            f.append('fault=' + op['fault']['kind'])
            f.append('call=' + op['call'])
        return f

    def rule(self):
        return ('start state from a 0-3 op prefix history; one ragged append/iterappend of 0-6 items under one fault '
                '(failing iterable, wrong atom/rank, unconvertible, index overflow with int8/uint8/int16 index types, '
                'RLIMIT_FSIZE aimed at the values or the indices file, ENOSPC on the n-th values write or n-th index-row '
                'write; or none = control); non-trivial = the fault fired (or control completed)')

    def nontrivial(self, scenario, stats):
        return stats.get('mutations_ok', 0) >= 1 or sum((stats.get('faults') or {}).values()) >= 1

    def components(self):
        c = super().components()
        c['real'].append('kernel RLIMIT_FSIZE/EFBIG through numpy tofile + C stdio')
        c['stub'].append('enospc_seam: ndarray subclass whose tofile writes a prefix and raises OSError(ENOSPC)')
        return c


class _RFState(RH._RState):

    def __init__(self, *a):
        super().__init__(*a)
        self.faults = {}

    def stats(self):
        s = super().stats()
        s['faults'] = self.faults
        return s

    def fault(self, name):
        self.faults[name] = self.faults.get(name, 0) + 1

    def step(self, op):
        if op['op'] == 'faultappend':
            if self.h is None:
                self.log('faultappend', 'skipped_no_array')
                return
            if self.mode != 'r+':
                self.h.accessmode = 'r+'
                self.mode = 'r+'
            return self.do_faultappend(op)
        return super().step(op)

    def do_create(self, op):
        if 'nitems' in op:
            op = dict(op, items=[dict(op['items'][0], vseed=k) for k in range(op['nitems'])])
        return super().do_create(op)

    def bad_obj(self, kind, empty=False):
        atom = list(self.atom)
        if kind == 'iter_badshape':
            tr = (atom[:-1] + [atom[-1] + 1]) if atom else [2]
            if empty:
                return np.zeros(([0] + tr) if atom else [3, 0], dtype=self.dtype)
            return np.zeros([2] + tr, dtype=self.dtype)
        if kind == 'iter_badrank':
            if empty:
                return np.zeros([3] + atom + [0], dtype=self.dtype)
            return np.zeros([2] + atom + [2], dtype=self.dtype)
        if kind == 'iter_unconvertible':
            return ['x', 'y'] if not atom else object()
        raise HarnessError(kind)

    def do_faultappend(self, op):
        f = op['fault']
        kind = f['kind']
        objs, exps = [], []
        for d in op['items']:
            obj, _ = D.build(d, trail=self.atom, target_dtype=self.dtype)
            e = self.model_item(obj)
            if e is None:
                obj, _ = D.build(dict(d, form='ndarray'), trail=self.atom, target_dtype=self.dtype)
                e = self.model_item(obj)
            if e is None:
                raise HarnessError('item not castable')
            objs.append(obj)
            exps.append(e)
        n = len(objs)
        vfile = os.path.join(self.path, 'values', 'arrayvalues.bin')
        ifile = os.path.join(self.path, 'indices', 'arrayvalues.bin')
        vbase, ibase = os.path.getsize(vfile), os.path.getsize(ifile)
        irow = 2 * np.dtype(self.indextype).itemsize
        vsizes = [e.nbytes for e in exps]
        expect_j, must_raise = n, False
        raise_at, limit, plan = None, None, None
        cap = RH.SMALLCAP.get(self.indextype)
        total = self.nvalues()
        if kind != 'index_overflow' and cap is not None:
            # keep indices representable unless overflow is the fault
            keep = 0
            t = total
            for e in exps:
                if t + e.shape[0] > cap:
                    break
                t += e.shape[0]
                keep += 1
            if keep < n:
                objs, exps, vsizes = objs[:keep], exps[:keep], vsizes[:keep]
                n = keep
                for key in ('pos', 'item', 'nth'):
                    if key in f:
                        f = dict(f, **{key: min(f[key], max(0, n - (0 if key == 'pos' else 1)))})
        if kind in ITER_FAULTS:
            pos = min(f['pos'], n)
            if kind == 'iter_raise':
                raise_at = pos
            else:
                objs = objs[:pos] + [self.bad_obj(kind, empty=bool(f.get('empty_bad')))] + objs[pos:]
                if f.get('empty_bad'):
                    self.probe('bad_item_without_elements')
            expect_j, must_raise = pos, True
        elif kind == 'index_overflow':
            if cap is None or n == 0:
                kind = 'none'
            else:
                pos = min(f['pos'], n - 1)
                need = cap - total - sum(e.shape[0] for e in exps[:pos])
                if need < 0:
                    # an earlier item already overflows
                    t = total
                    for jj, e in enumerate(exps):
                        t += e.shape[0]
                        if t > cap:
                            pos = jj
                            break
                else:
                    big = np.zeros((need + 1 + exps[pos].shape[0],) + self.atom, dtype=self.dtype)
                    objs[pos] = big
                    exps[pos] = big
                expect_j, must_raise = pos, True
        elif kind.startswith('efbig'):
            if n == 0:
                kind = 'none'
            else:
                j = min(f['item'], n - 1)
                w = f['where']
                if kind == 'efbig_values':
                    a = vbase + sum(vsizes[:j])
                    b = a + vsizes[j]
                else:
                    a = ibase + irow * j
                    b = a + irow
                limit = {'start-1': a - 1, 'start': a, 'start+1': a + 1, 'mid': a + int(f['frac'] * (b - a)),
                         'end-1': b - 1, 'end': b}[w]
                limit = max(limit, 0)
                small = []
                for root, _, files in os.walk(self.path):
                    for x in files:
                        p = os.path.join(root, x)
                        if p not in (vfile, ifile):
                            small.append(os.path.getsize(p))
                other = ibase + irow * n if kind == 'efbig_values' else vbase + sum(vsizes)
                if limit < max(small + [0]) + 2048 or limit <= other + 64:
                    self.probe('discarded_limit_hits_other_files')
                    self.log('faultappend', 'discarded')
                    return
                expect_j = n
                for jj in range(n):
                    vend = vbase + sum(vsizes[:jj + 1])
                    iend = ibase + irow * (jj + 1)
                    if kind == 'efbig_values' and vsizes[jj] > 0 and vend > limit:
                        expect_j = jj
                        break
                    if kind == 'efbig_indices' and iend > limit:
                        expect_j = jj
                        break
                must_raise = expect_j < n
        elif kind.startswith('enospc'):
            if n == 0:
                kind = 'none'
            else:
                j = min(f['nth'], n - 1)
                which = 'values' if kind == 'enospc_values' else 'indices'
                sz = vsizes[j] if which == 'values' else irow
                nb = {'zero': 0, 'one': 1, 'mid': int(f['frac'] * sz), 'end-1': max(sz - 1, 0), 'all': sz}[f['where']]
                plan = SeamPlan(which, j, min(nb, sz))
                expect_j, must_raise = j, True
        single = op['call'] == 'append'
        watch = None
        if single:
            arg = objs[0] if objs else np.zeros((0,) + self.atom, dtype=self.dtype)
            if not objs:
                exps = [self.model_item(arg)]
                if not must_raise:
                    expect_j = 1
            call = lambda: self.h.append(arg)   # noqa
        else:
            watch = _Watch([vfile, ifile])
            it = _watched(objs, op.get('as', 'list'), raise_at, _Interrupt if f.get('base') else _Boom, watch)
            if raise_at is not None and f.get('base'):
                self.probe('iterable_raised_non_Exception')
            call = lambda: self.h.iterappend(it)   # noqa
        exc = None
        try:
            if limit is not None:
                with fsize_limit(limit):
                    call()
            elif plan is not None:
                with tofile_seam(self.darr, plan):
                    call()
            else:
                call()
        except (Exception, _Interrupt) as e:   # noqa
            exc = e
        if plan is not None:
            if plan.engaged == 0:
                self.probe('seam_unavailable')
                must_raise = False
                expect_j = len(exps)
            elif plan.fired:
                self.fault(kind)
            else:
                self.probe('seam_engaged_but_never_fired')
                must_raise = False
                expect_j = len(exps)
        elif must_raise:
            self.fault(kind)
        if limit is not None and not must_raise:
            self.probe('efbig_not_reached')
        tag = f'{kind}:{"empty" if not self.L else "nonempty"}'
        # ---- which prefixes of whole subarrays may remain: "those completely appended before the failure" = values and
        # index row on disk when Darr last asked the iterable for an item (see _Watch), up to the item before the failing one
        lo = hi = expect_j
        if must_raise and exc is not None:
            def complete_at(sz):
                rows = max(0, (sz[1] - ibase) // irow) if irow else 0
                vdone = 0
                for k in range(len(vsizes) + 1):
                    if vbase + sum(vsizes[:k]) <= sz[0]:
                        vdone = k
                return min(rows, vdone, len(exps))
            iter_pos = pos if (kind in ITER_FAULTS or kind == 'index_overflow') else None
            lo, hi = _prefix_range(watch, single, True, iter_pos, expect_j if limit is not None else None,
                                   len(exps), complete_at)
            if (lo, hi) != (expect_j, expect_j):
                self.probe('completed_subarrays_observed_differ_from_write_as_consumed')
        expected = self.L + exps[:expect_j]
        if must_raise and exc is None:
            raise Viol('fault.no_exception', tag, f'expected failure after {expect_j} of {len(exps)} items')
        unknown_j = not must_raise and exc is not None
        if unknown_j:
            # failed for a reason this run did not inject (C04's subject): any prefix of completed subarrays
            self.probe('call_without_injected_fault_raised')
        try:
            fresh = self.darr.RaggedArray(self.path)
        except Exception as e:
            raise Viol('fault.fresh_open', f'{tag}:{type(e).__name__}', f'j={expect_j} {str(e)[:200]}')
        if unknown_j:
            try:
                nfresh = len(fresh)
            except Exception:
                nfresh = None
            if nfresh is not None and len(self.L) <= nfresh <= len(self.L) + len(exps):
                expect_j = nfresh - len(self.L)
                expected = self.L + exps[:expect_j]
        try:
            subs, v, i, top = decode_ragged_dir(self.path)
        except DecodeError as e:
            raise Viol('fault.decoder', f'{tag}:{str(e).split(":")[0]}', str(e))
        if len(fresh) != len(expected) and lo <= len(fresh) - len(self.L) <= hi:
            # another prefix of whole subarrays that is consistent with what was on disk when the failure happened
            expect_j = len(fresh) - len(self.L)
            expected = self.L + exps[:expect_j]
        if len(fresh) != len(expected) or len(subs) != len(expected):
            cls = 'more' if len(fresh) > len(self.L) + hi else 'fewer'
            raise Viol('fault.contents', f'{tag}:has_{cls}_subarrays', f'{len(fresh)} != {len(self.L)}+[{lo}..{hi}]')
        for k, e in enumerate(expected):
            ok, why = D.arr_equal(subs[k], e)
            if not ok:
                raise Viol('fault.decoder_contents', tag, f'k={k} {why}')
        ks = range(len(expected)) if len(expected) <= 40 else \
            list(range(3)) + list(range(len(expected) - 30, len(expected)))

        def cmp(h, oracle, sigtail):
            for k in ks:
                ok, why = D.arr_equal(h[k], expected[k])
                if not ok:
                    raise Viol(oracle, f'{tag}:{sigtail}', f'k={k} {why}')
        try:
            if hasattr(fresh, 'open_arrays'):
                with fresh.open_arrays():
                    cmp(fresh, 'fault.contents', 'subarray_differs')
            else:
                cmp(fresh, 'fault.contents', 'subarray_differs')
        except Viol:
            raise
        except Exception as e:
            raise Viol('fault.contents', f'{tag}:read_raises:{type(e).__name__}', str(e)[:200])
        try:
            if len(self.h) != len(expected) or self.h.size != fresh.size:
                raise Viol('fault.live', f'{tag}:disagrees_with_fresh', f'len {len(self.h)} vs {len(expected)}')
            cmp(self.h, 'fault.live', 'disagrees_with_fresh')
        except Viol:
            raise
        except Exception as e:
            raise Viol('fault.live', f'{tag}:raises:{type(e).__name__}', str(e)[:200])
        if leaks(self.path):
            self.probe('descriptor_still_open_after_failed_append')
        self.L = expected
        if exc is None:
            self.mutations_ok += 1
        self.log('faultappend', 'raised' if exc is not None else 'ok',
                 {'kind': kind, 'j': expect_j, 'n': len(exps), 'exc': type(exc).__name__ if exc else None})


RaggedAppendFault.state_cls = _RFState
